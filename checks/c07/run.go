package c07

import (
	"context"
	"errors"
	"fmt"
	"net/url"
	"os"
	"regexp"
	"runtime/debug"
	"sort"
	"strings"

	"github.com/ogen-go/ogen"
	"github.com/ogen-go/ogen/gen"
	"github.com/ogen-go/ogen/gen/ir"
	"github.com/ogen-go/ogen/location"
	"github.com/ogen-go/ogen/openapi"
	"github.com/ogen-go/ogen/openapi/parser"
)

// memFS serves the documents of a case to ogen's external resolver.
type memFS map[string]string

func (m memFS) Get(_ context.Context, loc string) ([]byte, error) {
	u, err := url.Parse(loc)
	if err != nil {
		return nil, err
	}
	s, ok := m[u.Path]
	if !ok {
		return nil, fmt.Errorf("c07: no such document %q", loc)
	}
	return []byte(s), nil
}

func (m memFS) readFile(p string) ([]byte, error) {
	s, ok := m[p]
	if !ok {
		return nil, os.ErrNotExist
	}
	return []byte(s), nil
}

// emitted is the textual form of a document set plus the line spans of nodes.
type emitted struct {
	texts memFS
	spans map[string]map[*Node]span
}

func emitAll(docs Docs) emitted {
	e := emitted{texts: memFS{}, spans: map[string]map[*Node]span{}}
	for f, n := range docs {
		e.texts[f], e.spans[f] = Emit(n)
	}
	return e
}

func rootURL() *url.URL { return &url.URL{Scheme: "file", Path: rootFile} }

type outcome struct {
	api      *openapi.API
	err      error
	panicked string
}

func guard(fn func()) (p string) {
	defer func() {
		if r := recover(); r != nil {
			st := string(debug.Stack())
			if len(st) > 1800 {
				st = st[:1800]
			}
			p = fmt.Sprintf("%v\n%s", r, st)
		}
	}()
	fn()
	return ""
}

func runParse(e emitted, depthLimit int) (o outcome) {
	o.panicked = guard(func() {
		data := []byte(e.texts[rootFile])
		spec, err := ogen.Parse(data)
		if err != nil {
			o.err = fmt.Errorf("ogen.Parse: %w", err)
			return
		}
		o.api, o.err = parser.Parse(spec, parser.Settings{
			External:   e.texts,
			File:       location.NewFile("root.json", rootFile, data),
			RootURL:    rootURL(),
			DepthLimit: depthLimit,
		})
	})
	return o
}

type genOutcome struct {
	g        *gen.Generator
	err      error
	panicked string
}

// runGen runs gen.NewGenerator. convenient < 0 switches the "convenient errors"
// feature off: in auto mode it replaces the default responses by one error
// type when it recognises them as equal, which it does for references to one
// component but not always for equal inline copies.
func runGen(e emitted, convenient int) (o genOutcome) {
	o.panicked = guard(func() {
		data := []byte(e.texts[rootFile])
		spec, err := ogen.Parse(data)
		if err != nil {
			o.err = fmt.Errorf("ogen.Parse: %w", err)
			return
		}
		o.g, o.err = gen.NewGenerator(spec, gen.Options{
			Parser: gen.ParseOptions{
				AllowRemote: true,
				RootURL:     rootURL(),
				File:        location.NewFile("root.json", rootFile, data),
				Remote:      gen.RemoteOptions{ReadFile: e.texts.readFile},
			},
			Generator: gen.GenerateOptions{ConvenientErrors: gen.ConvenientErrors(convenient)},
		})
	})
	return o
}

var (
	posRe    = regexp.MustCompile(`at \S+?:\d+(:\d+)?`)
	quotedRe = regexp.MustCompile(`"[^"]*"`)
)

// rootCause is the innermost error message with source positions removed.
func rootCause(err error) string {
	if err == nil {
		return ""
	}
	for {
		u := errors.Unwrap(err)
		if u == nil {
			break
		}
		err = u
	}
	s := posRe.ReplaceAllString(err.Error(), "at POS")
	return strings.TrimSpace(s)
}

func stripPos(err error) string {
	if err == nil {
		return ""
	}
	return posRe.ReplaceAllString(err.Error(), "at POS")
}

// genClass is the class of a generator error: the root cause without names.
func genClass(err error) string {
	if err == nil {
		return "ok"
	}
	var ni *gen.ErrNotImplemented
	if errors.As(err, &ni) {
		return "not implemented: " + ni.Name
	}
	rc := rootCause(err)
	if strings.Contains(err.Error(), "infinite recursion") {
		return "infinite recursion"
	}
	return quotedRe.ReplaceAllString(rc, `"_"`)
}

// position returns the outermost located error (the innermost position:
// ogen wraps an error with a location only once).
func position(err error) (file string, line int, ok bool) {
	var le *location.Error
	for err != nil {
		if errors.As(err, &le) {
			if le.Pos.Line > 0 {
				return le.File.Source, le.Pos.Line, true
			}
			err = le.Err
			continue
		}
		break
	}
	return "", 0, false
}

// ---- generator-level signature

func opSignature(op *ir.Operation) string {
	var b strings.Builder
	s := op.Spec
	if wh := op.WebhookInfo; wh != nil {
		fmt.Fprintf(&b, "webhook %s %s", wh.Name, strings.ToUpper(s.HTTPMethod))
	} else {
		fmt.Fprintf(&b, "%s %s", strings.ToUpper(s.HTTPMethod), s.Path.String())
	}
	var ps []string
	for _, p := range op.Params {
		ps = append(ps, fmt.Sprintf("(%s,%s,%v)", p.Spec.Name, p.Spec.In, p.Spec.Required))
	}
	sort.Strings(ps)
	fmt.Fprintf(&b, " params[%s]", strings.Join(ps, ""))
	if r := op.Request; r != nil {
		var cts []string
		for ct := range r.Contents {
			cts = append(cts, string(ct))
		}
		sort.Strings(cts)
		fmt.Fprintf(&b, " req[%s]", strings.Join(cts, ","))
	}
	if rs := op.Responses; rs != nil {
		var parts []string
		one := func(code string, r *ir.Response) {
			if r == nil {
				return
			}
			var cts, hs []string
			for ct, m := range r.Contents {
				cts = append(cts, string(ct)+wrapperFields(m.Type))
			}
			if r.NoContent != nil {
				cts = append(cts, "-"+wrapperFields(r.NoContent))
			}
			for _, h := range r.Headers {
				hs = append(hs, h.Spec.Name)
			}
			sort.Strings(cts)
			sort.Strings(hs)
			parts = append(parts, fmt.Sprintf("%s{ct:%s;hdr:%s}", code, strings.Join(cts, ","), strings.Join(hs, ",")))
		}
		var codes []int
		for c := range rs.StatusCode {
			codes = append(codes, c)
		}
		sort.Ints(codes)
		for _, c := range codes {
			one(fmt.Sprint(c), rs.StatusCode[c])
		}
		for i, r := range rs.Pattern {
			one(fmt.Sprintf("%dXX", i+1), r)
		}
		one("default", rs.Default)
		fmt.Fprintf(&b, " resp[%s]", strings.Join(parts, " "))
	}
	fmt.Fprintf(&b, " sec[%d/%d]", len(op.Security.Securities), len(op.Security.Requirements))
	return b.String()
}

// wrapperFields lists the header/status fields of a response wrapper struct.
func wrapperFields(t *ir.Type) string {
	// one referenced response used under two codes of an operation yields alias
	// types of one wrapper; the inlined form yields two wrappers
	for i := 0; t != nil && i < 8 && (t.IsAlias() || t.IsPointer()); i++ {
		if t.IsAlias() {
			t = t.AliasTo
		} else {
			t = t.PointerTo
		}
	}
	if t == nil || !t.IsStruct() {
		return ""
	}
	var fs []string
	isWrapper := len(t.Fields) == 0
	for _, f := range t.Fields {
		if f.Spec != nil {
			return "" // a schema struct, not a wrapper
		}
		isWrapper = true
		fs = append(fs, f.Name)
	}
	if !isWrapper {
		return ""
	}
	return "(" + strings.Join(fs, ",") + ")"
}

func genSignature(g *gen.Generator) []string {
	var out []string
	for _, op := range g.Operations() {
		out = append(out, opSignature(op))
	}
	for _, op := range g.Webhooks() {
		out = append(out, opSignature(op))
	}
	sort.Strings(out)
	return out
}

// duplicateFields lists Go struct types of the IR that declare one field name
// twice (such a type does not compile).
func duplicateFields(g *gen.Generator) []string {
	var out []string
	seenT := map[*ir.Type]bool{}
	var visit func(t *ir.Type)
	check := func(t *ir.Type) {
		if t == nil || !t.IsStruct() {
			return
		}
		names := map[string]bool{}
		for _, f := range t.Fields {
			if names[f.Name] {
				out = append(out, fmt.Sprintf("%s.%s", t.Name, f.Name))
			}
			names[f.Name] = true
		}
	}
	visit = func(t *ir.Type) {
		if t == nil || seenT[t] {
			return
		}
		seenT[t] = true
		check(t)
	}
	for _, t := range g.Types() {
		visit(t)
	}
	sort.Strings(out)
	return out
}
