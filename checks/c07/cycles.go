package c07

import (
	"fmt"
	"strings"

	"pgregory.net/rapid"
)

// skeleton builds a root document with one operation and returns the places
// where an entry reference of each kind can be put.
type skeleton struct {
	b    *builder
	root *Node
	op   *Node
	resp *Node
}

func newSkeleton(b *builder, method string) *skeleton {
	version := "3.0.3"
	if b.v31 {
		version = "3.1.0"
	}
	resp := O("description", "ok")
	op := O("responses", O("200", resp))
	root := O("openapi", version, "info", O("title", "c07", "version", "1.0.0"),
		"paths", O("/r0", O(method, op)))
	b.docs[rootFile] = root
	return &skeleton{b: b, root: root, op: op, resp: resp}
}

// enter wires a use of kind k whose reference object is ref into the operation.
// via selects between alternative entry places where a kind has several.
func (s *skeleton) enter(k Kind, ref *Node, via int) string {
	switch k {
	case KSchema:
		switch via % 4 {
		case 0:
			s.resp.Set("content", O("application/json", O("schema", ref)))
			return "response-media"
		case 1:
			s.op.Set("requestBody", O("content", O("application/json", O("schema", ref))))
			return "request-media"
		case 2:
			s.op.Set("parameters", A(O("name", "q", "in", "query", "schema", ref)))
			return "parameter-schema"
		default:
			s.resp.Set("headers", O("X-E", O("schema", ref)))
			return "header-schema"
		}
	case KParam:
		if via%2 == 0 {
			s.op.Set("parameters", A(ref))
			return "operation-parameter"
		}
		s.root.Get("paths").Get("/r0").Set("parameters", A(ref))
		return "path-item-parameter"
	case KHeader:
		s.resp.Set("headers", O("X-E", ref))
		return "response-header"
	case KResponse:
		s.op.Get("responses").Set([]string{"200", "default", "4XX"}[via%3], ref)
		return "operation-response"
	case KReqBody:
		s.op.Set("requestBody", ref)
		return "operation-request-body"
	case KExample:
		s.resp.Set("content", O("application/json", O("schema", O("type", "string"), "examples", O("e1", ref))))
		return "media-example"
	case KSec:
		s.root.Obj("components").Obj("securitySchemes").Set("entry", ref)
		if via%2 == 0 {
			s.op.Set("security", A(O("entry", A())))
			return "operation-security"
		}
		s.root.Set("security", A(O("entry", A())))
		return "root-security"
	case KPathItem:
		if via%2 == 0 || !s.b.v31 {
			s.root.Get("paths").Set("/r1", ref)
			return "path"
		}
		s.root.Obj("webhooks").Set("hook", ref)
		return "webhook"
	}
	panic("enter: " + string(k))
}

func concreteBody(k Kind, id int) *Node {
	switch k {
	case KSchema:
		return O("type", "string")
	case KParam:
		return O("name", fmt.Sprintf("p%d", id), "in", "query", "schema", O("type", "string"))
	case KHeader:
		return O("schema", O("type", "string"))
	case KResponse:
		return O("description", "r")
	case KReqBody:
		return O("content", O("application/json", O("schema", O("type", "string"))))
	case KExample:
		return O("value", "x")
	case KSec:
		return O("type", "http", "scheme", "basic")
	case KPathItem:
		return O("get", O("responses", O("200", O("description", "ok"))))
	}
	panic("concreteBody")
}

func newBuilder(t *rapid.T) *builder {
	return &builder{t: t, docs: Docs{}, ents: map[Kind][]*ent{}, last: map[Kind]*ent{}, excluded: map[string]int{}, tags: map[string]bool{}}
}

func (b *builder) addFiles(lo int) {
	for i, k := 0, b.n(lo, 3, "nfiles"); i < k; i++ {
		b.ext = append(b.ext, extFiles[i])
		b.docs[extFiles[i]] = O()
	}
}

// memberHome draws a home for a cycle/chain member. Over-deep chains must not
// live in the root components (those are resolved one by one in map order and
// cached, which would make the nesting depth depend on the iteration order).
func (b *builder) memberHome(k Kind, noRootComponents bool) (string, []string) {
	for {
		f, p := b.home(k)
		if noRootComponents && f == rootFile && p[0] == "components" {
			continue
		}
		return f, p
	}
}

var schemaEdges = []string{"alias", "req", "opt", "arrprop", "mapprop", "items", "sumprop", "oneof", "allof"}

func schemaEdgeBody(edge string, next *Node, id int) *Node {
	name := fmt.Sprintf("f%d", id)
	switch edge {
	case "alias":
		return next
	case "req":
		return O("type", "object", "required", A(name), "properties", O(name, next))
	case "opt":
		return O("type", "object", "properties", O(name, next, "other", O("type", "integer")))
	case "arrprop":
		return O("type", "object", "required", A(name), "properties", O(name, O("type", "array", "items", next)))
	case "mapprop":
		return O("type", "object", "required", A(name), "properties", O(name, O("type", "object", "additionalProperties", next)))
	case "items":
		return O("type", "array", "items", next)
	case "sumprop":
		return O("type", "object", "required", A(name), "properties", O(name, O("oneOf", A(next, O("type", "string")))))
	case "oneof":
		return O("oneOf", A(next, O("type", "string")))
	case "allof":
		return O("allOf", A(next, O("type", "object", "properties", O(name, O("type", "string")))))
	}
	panic("edge " + edge)
}

// drawCycle generates a spec whose only anomaly is one reference cycle.
func drawCycle(t *rapid.T) Case {
	b := newBuilder(t)
	b.v31 = b.pct(60, "v31")
	b.allow = b.pct(20, "allow-known")
	b.safeNames = !b.allow
	k := allKinds[b.n(0, len(allKinds)-1, "kind")]
	L := b.n(1, 4, "len")
	b.addFiles(0)
	method := "post"
	sk := newSkeleton(b, method)
	type member struct {
		file string
		path []string
	}
	ms := make([]member, L)
	for i := range ms {
		ms[i].file, ms[i].path = b.memberHome(k, false)
	}
	ex := &Expect{Kind: k, Len: L, Outcome: "error-recursion"}
	var edges []string
	if k == KSchema {
		hasReq, hasOpt := false, false
		for range ms {
			e := schemaEdges[b.n(0, len(schemaEdges)-1, "edge")]
			edges = append(edges, e)
			hasReq = hasReq || e == "req"
			hasOpt = hasOpt || e == "opt"
		}
		if hasReq && hasOpt {
			if b.allow {
				b.tag("schema-cycle:required-and-optional-members")
			} else {
				// known finding: whether such a cycle generates depends on which
				// struct is finished first
				b.excluded["required-and-optional-members-in-cycle"]++
				for i, e := range edges {
					if e == "opt" {
						edges[i] = "arrprop"
					}
				}
			}
		}
	}
	for i := range ms {
		nx := ms[(i+1)%L]
		ref := O("$ref", makeRef(ms[i].file, nx.file, nx.path, b.safeStyle([]int{0, 0, 0, 1, 2, 3}[b.n(0, 5, "refstyle")], nx.file, k)))
		body := ref
		if k == KSchema {
			body = schemaEdgeBody(edges[i], ref, b.next())
		}
		b.docs[ms[i].file].Obj(ms[i].path[0]).Obj(ms[i].path[1]).Set(ms[i].path[2], body)
		ex.Members = append(ex.Members, Site{File: ms[i].file, Path: ms[i].path})
	}
	entry := O("$ref", makeRef(rootFile, ms[0].file, ms[0].path, 0))
	via := sk.enter(k, entry, b.n(0, 11, "via"))
	b.tag("entry:" + via)
	if k == KSchema {
		allAlias, allReq, hasSum, broken := true, true, false, false
		for _, e := range edges {
			if e != "alias" {
				allAlias = false
			}
			switch e {
			case "alias":
			case "req":
			case "opt", "arrprop", "mapprop", "items":
				allReq = false
				broken = true
			default:
				allReq = false
				hasSum = true
			}
		}
		media := via == "response-media" || via == "request-media"
		inRootComponents := false
		for _, m := range ms {
			if m.file == rootFile && m.path[0] == "components" {
				inRootComponents = true
			}
		}
		anyAlias := false
		for _, e := range edges {
			anyAlias = anyAlias || e == "alias"
		}
		switch {
		case anyAlias && !allAlias && inRootComponents:
			// root components are resolved one by one in map order; whether the
			// cycle is first entered at the alias member decides ogen's outcome
			ex.Outcome = "terminates"
			b.tag("schema-cycle:alias-member-in-root-components")
		case allAlias:
			// no type can be made of a cycle of pure references: an error naming
			// the recursion is the sensible outcome, demanded only not to crash
			ex.Outcome = "terminates"
			b.tag("schema-cycle:pure-alias")
		case !media || hasSum:
			ex.Outcome = "terminates"
			if hasSum {
				b.tag("schema-cycle:through-sum")
			} else {
				b.tag("schema-cycle:non-media-entry")
			}
		case allReq:
			ex.Outcome = "gen-recursion"
			b.tag("schema-cycle:all-required")
		case broken:
			ex.Outcome = "ok"
			b.tag("schema-cycle:broken-by-optional-or-container")
		}
		if anyAlias && !allAlias && edges[0] == "alias" && !inRootComponents {
			b.tag("schema-cycle:entered-at-alias")
		}
	}
	c := caseFromDocs(b.docs)
	c.Expect = ex
	c.AllowKnown = b.allow
	if len(b.excluded) > 0 {
		c.Excluded = b.excluded
	}
	for tg := range b.tags {
		c.Tags = append(c.Tags, tg)
	}
	sortStrings(c.Tags)
	c.Tags = append(c.Tags, fmt.Sprintf("cycle-len-%d", L))
	return c
}

// chainCase builds a chain entry → M0 → M1 → … → M(n-1) (concrete) of kind k.
func chainCase(b *builder, k Kind, n, limit int, mixed bool) Case {
	sk := newSkeleton(b, "post")
	type member struct {
		file string
		path []string
	}
	ms := make([]member, n)
	for i := range ms {
		ms[i].file, ms[i].path = b.memberHome(k, true)
	}
	for i := range ms {
		var body *Node
		if i+1 < n {
			nx := ms[i+1]
			body = O("$ref", makeRef(ms[i].file, nx.file, nx.path, 0))
		} else {
			body = concreteBody(k, b.next())
		}
		b.docs[ms[i].file].Obj(ms[i].path[0]).Obj(ms[i].path[1]).Set(ms[i].path[2], body)
	}
	entry := O("$ref", makeRef(rootFile, ms[0].file, ms[0].path, 0))
	nest := n
	if mixed && k == KSchema {
		// response component → header component → schema chain: the nesting
		// counts references of all kinds
		hf, hp := b.memberHome(KHeader, true)
		b.docs[hf].Obj(hp[0]).Obj(hp[1]).Set(hp[2], O("schema", O("$ref", makeRef(hf, ms[0].file, ms[0].path, 0))))
		rf, rp := b.memberHome(KResponse, true)
		b.docs[rf].Obj(rp[0]).Obj(rp[1]).Set(rp[2], O("description", "r", "headers", O("X-M", O("$ref", makeRef(rf, hf, hp, 0)))))
		sk.enter(KResponse, O("$ref", makeRef(rootFile, rf, rp, 0)), 0)
		nest = n + 2
		b.tag("mixed-kinds")
	} else {
		sk.enter(k, entry, 0)
	}
	c := caseFromDocs(b.docs)
	c.DepthLimit = limit
	eff := limit
	if eff == 0 {
		eff = 1000
	}
	c.Expect = &Expect{Kind: k, Len: nest, Outcome: "ok-depth"}
	if nest > eff {
		c.Expect.Outcome = "error-depth"
	}
	for tg := range b.tags {
		c.Tags = append(c.Tags, tg)
	}
	sortStrings(c.Tags)
	switch {
	case nest == eff:
		c.Tags = append(c.Tags, "depth:at-limit")
	case nest == eff+1:
		c.Tags = append(c.Tags, "depth:limit+1")
	case nest > eff:
		c.Tags = append(c.Tags, "depth:beyond")
	default:
		c.Tags = append(c.Tags, "depth:below")
	}
	return c
}

func drawDepth(t *rapid.T) Case {
	b := newBuilder(t)
	b.v31 = true
	k := allKinds[b.n(0, len(allKinds)-1, "kind")]
	limit := b.n(1, 7, "limit")
	n := limit + b.n(-2, 4, "delta")
	if n < 1 {
		n = 1
	}
	b.addFiles(0)
	if k == KParam && b.pct(40, "siblings") {
		return siblingChains(b, b.n(2, 4, "nsiblings"), n, limit)
	}
	return chainCase(b, k, n, limit, b.pct(30, "mixed"))
}

// siblingChains: several parameters of one operation, each the head of its own
// chain of n references. The limit bounds the nesting, not the number of
// references resolved one after the other in one context.
func siblingChains(b *builder, s, n, limit int) Case {
	sk := newSkeleton(b, "post")
	ps := A()
	for c := 0; c < s; c++ {
		var prevFile string
		var prevPath []string
		for i := n - 1; i >= 0; i-- {
			f, p := b.memberHome(KParam, true)
			var body *Node
			if i == n-1 {
				body = concreteBody(KParam, b.next())
			} else {
				body = O("$ref", makeRef(f, prevFile, prevPath, 0))
			}
			b.docs[f].Obj(p[0]).Obj(p[1]).Set(p[2], body)
			prevFile, prevPath = f, p
		}
		ps.Items = append(ps.Items, O("$ref", makeRef(rootFile, prevFile, prevPath, 0)))
	}
	sk.op.Set("parameters", ps)
	c := caseFromDocs(b.docs)
	c.DepthLimit = limit
	c.Expect = &Expect{Kind: KParam, Len: n, Outcome: "ok-depth"}
	if n > limit {
		c.Expect.Outcome = "error-depth"
	}
	for tg := range b.tags {
		c.Tags = append(c.Tags, tg)
	}
	sortStrings(c.Tags)
	c.Tags = append(c.Tags, "sibling-chains")
	switch {
	case n == limit:
		c.Tags = append(c.Tags, "depth:at-limit")
	case n == limit+1:
		c.Tags = append(c.Tags, "depth:limit+1")
	case n > limit:
		c.Tags = append(c.Tags, "depth:beyond")
	default:
		c.Tags = append(c.Tags, "depth:below")
	}
	return c
}

// deepChain is the case for a chain of n references of kind k under the default limit.
func deepChain(k Kind, n int) Case {
	c, _ := deepChainDocs(k, n)
	c.Files = nil
	c.Recipe = fmt.Sprintf("deep:%s:%d", k, n)
	return c
}

func deepChainDocs(k Kind, n int) (Case, Docs) {
	b := newBuilder(nil)
	b.lcg = uint64(len(k)*7919 + n)
	b.v31 = true
	b.ext = []string{extFiles[0]}
	b.docs[extFiles[0]] = O()
	c := chainCase(b, k, n, 0, false)
	c.Tags = append(c.Tags, "default-limit")
	return c, b.docs
}

func recipeDocs(recipe string) (Docs, error) {
	var kind string
	var n int
	parts := strings.Split(recipe, ":")
	if len(parts) != 3 || parts[0] != "deep" {
		return nil, fmt.Errorf("unknown recipe %q", recipe)
	}
	kind = parts[1]
	if _, err := fmt.Sscanf(parts[2], "%d", &n); err != nil || n < 1 || n > 5000 {
		return nil, fmt.Errorf("bad recipe %q", recipe)
	}
	_, d := deepChainDocs(Kind(kind), n)
	return d, nil
}
