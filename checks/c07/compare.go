package c07

import (
	"bytes"
	"encoding/json"
	"fmt"
	"reflect"
	"sort"
	"strings"

	"github.com/ogen-go/ogen/jsonpointer"
	"github.com/ogen-go/ogen/jsonschema"
	"github.com/ogen-go/ogen/location"
)

// Diff is one structural difference between two parsed APIs.
type Diff struct {
	Path string
	A, B string
}

func (d Diff) String() string { return fmt.Sprintf("%s: %s != %s", d.Path, d.A, d.B) }

var ignoredTypes = map[reflect.Type]bool{
	reflect.TypeOf(location.Pointer{}):  true,
	reflect.TypeOf(location.Locator{}):  true,
	reflect.TypeOf(location.Position{}): true,
	reflect.TypeOf(location.File{}):     true,
	reflect.TypeOf(jsonpointer.RefKey{}): true,
}

var (
	rawMessageType = reflect.TypeOf(json.RawMessage(nil))
	schemaType     = reflect.TypeOf(jsonschema.Schema{})
	exampleType    = reflect.TypeOf(jsonschema.Example(nil))
	stringerType   = reflect.TypeOf((*fmt.Stringer)(nil)).Elem()
)

type ptrPair struct{ a, b uintptr }

type comparer struct {
	visited map[ptrPair]bool
	diffs   []Diff
	max     int
	skip    func(path string) bool
}

// compareValues compares two values structurally: pointer identity is ignored
// (two distinct but equal objects are equal, one shared object equals two equal
// copies), reference keys and source positions are ignored, cycles are handled
// co-inductively (a pair of pointers already under comparison is assumed equal).
func compareValues(a, b any, skip func(string) bool) []Diff {
	c := &comparer{visited: map[ptrPair]bool{}, max: 12, skip: skip}
	c.cmp(reflect.ValueOf(a), reflect.ValueOf(b), "")
	return c.diffs
}

func (c *comparer) add(path, a, b string) {
	if len(c.diffs) < c.max {
		if len(a) > 160 {
			a = a[:160] + "…"
		}
		if len(b) > 160 {
			b = b[:160] + "…"
		}
		c.diffs = append(c.diffs, Diff{path, a, b})
	}
}

func canonJSON(raw []byte) string {
	var v any
	dec := json.NewDecoder(bytes.NewReader(raw))
	dec.UseNumber()
	if err := dec.Decode(&v); err != nil {
		return "raw:" + string(raw)
	}
	out, err := json.Marshal(v)
	if err != nil {
		return "raw:" + string(raw)
	}
	return string(out)
}

func (c *comparer) cmp(a, b reflect.Value, path string) {
	if len(c.diffs) >= c.max {
		return
	}
	if c.skip != nil && c.skip(path) {
		return
	}
	if !a.IsValid() || !b.IsValid() {
		if a.IsValid() != b.IsValid() {
			c.add(path, fmt.Sprint(a.IsValid()), fmt.Sprint(b.IsValid()))
		}
		return
	}
	if a.Type() != b.Type() {
		c.add(path, "type "+a.Type().String(), "type "+b.Type().String())
		return
	}
	t := a.Type()
	if ignoredTypes[t] {
		return
	}
	// raw JSON (examples, numbers): compare the JSON values, not the spelling
	if t.Kind() == reflect.Slice && t.Elem().Kind() == reflect.Uint8 {
		x, y := a.Bytes(), b.Bytes()
		if len(x) == 0 || len(y) == 0 {
			if len(x) != len(y) {
				c.add(path, string(x), string(y))
			}
			return
		}
		if cx, cy := canonJSON(x), canonJSON(y); cx != cy {
			c.add(path, cx, cy)
		}
		return
	}
	switch t.Kind() {
	case reflect.Ptr:
		if a.IsNil() || b.IsNil() {
			if a.IsNil() != b.IsNil() {
				c.add(path, nilWord(a.IsNil()), nilWord(b.IsNil()))
			}
			return
		}
		pp := ptrPair{a.Pointer(), b.Pointer()}
		if c.visited[pp] {
			return
		}
		c.visited[pp] = true
		c.cmp(a.Elem(), b.Elem(), path)
	case reflect.Interface:
		if a.IsNil() || b.IsNil() {
			if a.IsNil() != b.IsNil() {
				c.add(path, nilWord(a.IsNil()), nilWord(b.IsNil()))
			}
			return
		}
		if t.Implements(stringerType) && t != reflect.TypeOf((*any)(nil)).Elem() && a.CanInterface() {
			// e.g. ogenregex.Regexp
			sa, sb := a.Interface().(fmt.Stringer).String(), b.Interface().(fmt.Stringer).String()
			if sa != sb {
				c.add(path, sa, sb)
			}
			return
		}
		c.cmp(a.Elem(), b.Elem(), path)
	case reflect.Struct:
		for i := 0; i < t.NumField(); i++ {
			f := t.Field(i)
			p := path + "." + f.Name
			if t == schemaType && f.Name == "Examples" {
				// appended while ranging over a Go map: order is not meaningful
				c.cmpMultiset(a.Field(i), b.Field(i), p)
				continue
			}
			c.cmp(a.Field(i), b.Field(i), p)
		}
	case reflect.Slice, reflect.Array:
		if t.Kind() == reflect.Slice && a.IsNil() != b.IsNil() && (a.Len() != 0 || b.Len() != 0) {
			c.add(path, nilWord(a.IsNil()), nilWord(b.IsNil()))
			return
		}
		if a.Len() != b.Len() {
			c.add(path+".len", fmt.Sprint(a.Len()), fmt.Sprint(b.Len()))
			return
		}
		for i := 0; i < a.Len(); i++ {
			c.cmp(a.Index(i), b.Index(i), fmt.Sprintf("%s[%d]", path, i))
		}
	case reflect.Map:
		ka, kb := keyStrings(a), keyStrings(b)
		if strings.Join(ka, "\x00") != strings.Join(kb, "\x00") {
			c.add(path+".keys", strings.Join(ka, ","), strings.Join(kb, ","))
			return
		}
		keys := a.MapKeys()
		sort.Slice(keys, func(i, j int) bool { return fmt.Sprint(keys[i]) < fmt.Sprint(keys[j]) })
		for _, k := range keys {
			c.cmp(a.MapIndex(k), b.MapIndex(k), fmt.Sprintf("%s[%v]", path, k))
		}
	case reflect.String:
		if a.String() != b.String() {
			c.add(path, fmt.Sprintf("%q", a.String()), fmt.Sprintf("%q", b.String()))
		}
	case reflect.Bool:
		if a.Bool() != b.Bool() {
			c.add(path, fmt.Sprint(a.Bool()), fmt.Sprint(b.Bool()))
		}
	case reflect.Int, reflect.Int8, reflect.Int16, reflect.Int32, reflect.Int64:
		if a.Int() != b.Int() {
			c.add(path, fmt.Sprint(a.Int()), fmt.Sprint(b.Int()))
		}
	case reflect.Uint, reflect.Uint8, reflect.Uint16, reflect.Uint32, reflect.Uint64, reflect.Uintptr:
		if a.Uint() != b.Uint() {
			c.add(path, fmt.Sprint(a.Uint()), fmt.Sprint(b.Uint()))
		}
	case reflect.Float32, reflect.Float64:
		if a.Float() != b.Float() {
			c.add(path, fmt.Sprint(a.Float()), fmt.Sprint(b.Float()))
		}
	case reflect.Func, reflect.Chan, reflect.UnsafePointer:
		// not part of the data model
	default:
		c.add(path, "unhandled kind "+t.Kind().String(), "")
	}
}

func (c *comparer) cmpMultiset(a, b reflect.Value, path string) {
	enc := func(v reflect.Value) []string {
		var out []string
		for i := 0; i < v.Len(); i++ {
			e := v.Index(i)
			if e.Kind() == reflect.Slice && e.Type().Elem().Kind() == reflect.Uint8 {
				out = append(out, canonJSON(e.Bytes()))
			} else {
				out = append(out, fmt.Sprint(e))
			}
		}
		sort.Strings(out)
		return out
	}
	x, y := enc(a), enc(b)
	if strings.Join(x, "\x00") != strings.Join(y, "\x00") {
		c.add(path, "{"+strings.Join(x, ", ")+"}", "{"+strings.Join(y, ", ")+"}")
	}
}

func keyStrings(m reflect.Value) []string {
	var out []string
	for _, k := range m.MapKeys() {
		out = append(out, fmt.Sprint(k))
	}
	sort.Strings(out)
	return out
}

func nilWord(isNil bool) string {
	if isNil {
		return "nil"
	}
	return "non-nil"
}

// normPath strips indices and map keys from a diff path so that it names the
// field, e.g. ".Operations[1].Responses.StatusCode[200].Headers[X-B].Name"
// becomes "Operations.Responses.StatusCode.Headers.Name".
func normPath(p string) string {
	var b strings.Builder
	depth := 0
	for _, r := range p {
		switch {
		case r == '[':
			depth++
		case r == ']':
			if depth > 0 {
				depth--
			}
		case depth == 0:
			b.WriteRune(r)
		}
	}
	return strings.TrimPrefix(b.String(), ".")
}
