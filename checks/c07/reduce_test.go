package c07

// Unit "reduce-transparency": when ogen decides whether the default responses of all operations are ONE
// "convenient error" it compares their schemas (gen/reduce.go). A schema written in place, a reference to
// a component and a reference to ANOTHER component with the same content are the same schema to a
// reader of the document, so the decision must not depend on which of the three spellings each operation
// uses ($ref is transparent). Oracle (metamorphic, no model of the reduction itself): for one error
// model and 2-3 operations, every assignment of spellings gives the same outcome with convenient errors
// forced on (generated / "response is different") and the same answer to "is there an error type" with
// the default setting; a model that differs in one member must not be merged in any spelling.

import (
	"fmt"
	"strings"
	"testing"

	"pgregory.net/rapid"

	"github.com/ogen-go/ogen"
	"github.com/ogen-go/ogen/gen"

	"verif/internal/vk"
)

type reduceCase struct {
	Model     int   `json:"model"`     // index into reduceModels
	Spellings []int `json:"spellings"` // per operation: 0 inline, 1 $ref ErrA, 2 $ref ErrB (same content), 3 $ref to a response component
	Differ    bool  `json:"differ"`    // the last operation's model differs in one member
}

var reduceModels = []string{
	`{"type":"object","required":["code","message"],"properties":{"code":{"type":"integer","format":"int32"},"message":{"type":"string"}}}`,
	`{"type":"object","properties":{"error":{"type":"string","maxLength":80},"details":{"type":"array","items":{"type":"string"}}}}`,
	`{"type":"object","required":["kind"],"properties":{"kind":{"type":"string","enum":["a","b"]},"inner":{"type":"object","properties":{"n":{"type":"number","minimum":0}}}}}`,
	`{"type":"string","minLength":1}`,
}

func reduceDoc(c reduceCase) string {
	model := reduceModels[c.Model%len(reduceModels)]
	other := strings.Replace(model, `"type":"string"`, `"type":"string","description":"x","maxLength":7`, 1)
	if other == model {
		other = `{"type":"integer"}`
	}
	var paths []string
	for i, sp := range c.Spellings {
		m := model
		differs := c.Differ && i == len(c.Spellings)-1
		if differs {
			m = other
		}
		var resp string
		switch {
		case differs || sp == 0:
			resp = `{"description":"error","content":{"application/json":{"schema":` + m + `}}}`
		case sp == 1:
			resp = `{"description":"error","content":{"application/json":{"schema":{"$ref":"#/components/schemas/ErrA"}}}}`
		case sp == 2:
			resp = `{"description":"error","content":{"application/json":{"schema":{"$ref":"#/components/schemas/ErrB"}}}}`
		default:
			resp = `{"$ref":"#/components/responses/ErrResp"}`
		}
		paths = append(paths, fmt.Sprintf(`"/p%d":{"get":{"operationId":"op%d","responses":{"200":{"description":"ok"},"default":%s}}}`, i, i, resp))
	}
	return `{"openapi":"3.0.3","info":{"title":"t","version":"1"},"paths":{` + strings.Join(paths, ",") + `},"components":{"schemas":{"ErrA":` + model + `,"ErrB":` + model +
		`},"responses":{"ErrResp":{"description":"error","content":{"application/json":{"schema":{"$ref":"#/components/schemas/ErrA"}}}}}}}`
}

// reduceOutcome: "reduced" (one error type), "different" (refused / not reduced), or another error text.
func reduceOutcome(doc string, forced bool) (string, *vk.Finding) {
	var out string
	f := vk.Guard("reduce-panic", func() *vk.Finding {
		spec, err := ogen.Parse([]byte(doc))
		if err != nil {
			out = "parse: " + err.Error()
			return nil
		}
		opt := gen.Options{}
		if forced {
			opt.Generator.ConvenientErrors = 1
		}
		g, err := gen.NewGenerator(spec, opt)
		switch {
		case err != nil && strings.Contains(err.Error(), "response is different"):
			out = "different"
		case err != nil:
			out = "error: " + err.Error()
		default:
			// reduced: no operation keeps a default response of its own
			out = "reduced"
			for _, op := range g.Operations() {
				if op.Responses != nil && op.Responses.Default != nil {
					out = "different"
				}
			}
			if forced {
				out = "reduced"
			}
		}
		return nil
	})
	return out, f
}

func checkReduce(u *vk.Unit, c reduceCase) *vk.Finding {
	if len(c.Spellings) < 2 {
		return nil
	}
	base := c
	base.Spellings = make([]int, len(c.Spellings)) // everything written in place
	for _, forced := range []bool{true, false} {
		want, f := reduceOutcome(reduceDoc(base), forced)
		if f != nil {
			return f
		}
		got, f := reduceOutcome(reduceDoc(c), forced)
		if f != nil {
			return f
		}
		u.Label(fmt.Sprintf("forced=%v:inline=%s", forced, strings.SplitN(want, ":", 2)[0]))
		if strings.HasPrefix(want, "error") || strings.HasPrefix(want, "parse") {
			continue // the model itself is refused: nothing to compare
		}
		if c.Differ && want == "reduced" {
			return vk.F("reduce-merged-different-models", "default responses whose schemas differ in one member were reduced to one error type (convenient errors forced=%v): %s", forced, reduceDoc(base))
		}
		if strings.Contains(got, "anonymous type name conflict") && !strings.Contains(want, "anonymous type name conflict") {
			// two operations whose (not reduced) default responses wrap ONE component: the recorded finding
			// "the wrapper is named after the content type"; reference versus in-place is exactly its shape
			return vk.F("response-wrapper-named-after-content-type", "two default responses that refer to one component: %s; document: %s", trim(got, 200), reduceDoc(c))
		}
		if got != want {
			return vk.F("reduce-depends-on-ref-spelling", "convenient errors forced=%v: with every default response schema written in place the outcome is %q, with the spellings %v (0 in place, 1 $ref ErrA, 2 $ref ErrB with the same content, 3 response component) it is %q; document: %s",
				forced, want, c.Spellings, trim(got, 200), reduceDoc(c))
		}
	}
	distinct := map[int]bool{}
	for _, s := range c.Spellings {
		distinct[s] = true
	}
	if len(distinct) >= 2 {
		u.NonTrivial(fmt.Sprint(c.Model, c.Spellings, c.Differ))
		u.Sample(c)
	}
	return nil
}

func trim(s string, n int) string {
	if len(s) > n {
		return s[:n] + "…"
	}
	return s
}

func TestReduceTransparency(t *testing.T) {
	u := vk.New(t, "C07", "reduce-transparency")
	defer u.Close()
	regress := []reduceCase{
		{Model: 0, Spellings: []int{1, 2}}, {Model: 0, Spellings: []int{1, 1}}, {Model: 0, Spellings: []int{0, 1}}, {Model: 0, Spellings: []int{3, 2}},
		{Model: 1, Spellings: []int{1, 2, 0}}, {Model: 2, Spellings: []int{2, 1}, Differ: true}, {Model: 3, Spellings: []int{1, 2}},
	}
	vk.Rapid(u, vk.N(300, 6000), regress, func(t *rapid.T) reduceCase {
		return reduceCase{Model: rapid.IntRange(0, len(reduceModels)-1).Draw(t, "model"),
			Spellings: rapid.SliceOfN(rapid.IntRange(0, 3), 2, 3).Draw(t, "spellings"), Differ: rapid.IntRange(0, 3).Draw(t, "differ") == 0}
	}, func(c reduceCase) *vk.Finding { return checkReduce(u, c) })
}
