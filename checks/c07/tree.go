package c07

import (
	"bytes"
	"encoding/json"
	"fmt"
	"io"
	"strconv"
	"strings"
)

// Node is an ordered JSON tree. Objects keep the order of their members, so a
// document is emitted byte-for-byte reproducibly and a copy of a subtree has
// the member order of its source.
type Node struct {
	K     byte // 'o' object, 'a' array, 's' string, 'n' number literal, 'b' bool, 'z' null
	Keys  []string
	Vals  []*Node
	Items []*Node
	S     string // string value / number literal
	B     bool
}

func O(kv ...any) *Node {
	n := &Node{K: 'o'}
	for i := 0; i+1 < len(kv); i += 2 {
		n.Set(kv[i].(string), toNode(kv[i+1]))
	}
	return n
}

func A(items ...any) *Node {
	n := &Node{K: 'a'}
	for _, it := range items {
		n.Items = append(n.Items, toNode(it))
	}
	return n
}

func S(s string) *Node { return &Node{K: 's', S: s} }
func I(i int) *Node    { return &Node{K: 'n', S: strconv.Itoa(i)} }
func Bo(b bool) *Node  { return &Node{K: 'b', B: b} }

func toNode(v any) *Node {
	switch x := v.(type) {
	case *Node:
		return x
	case string:
		return S(x)
	case int:
		return I(x)
	case bool:
		return Bo(x)
	case nil:
		return &Node{K: 'z'}
	case []string:
		n := &Node{K: 'a'}
		for _, s := range x {
			n.Items = append(n.Items, S(s))
		}
		return n
	}
	panic(fmt.Sprintf("toNode: %T", v))
}

func (n *Node) Get(key string) *Node {
	if n == nil || n.K != 'o' {
		return nil
	}
	for i, k := range n.Keys {
		if k == key {
			return n.Vals[i]
		}
	}
	return nil
}

func (n *Node) Has(key string) bool { return n.Get(key) != nil }

func (n *Node) Set(key string, v *Node) *Node {
	for i, k := range n.Keys {
		if k == key {
			n.Vals[i] = v
			return n
		}
	}
	n.Keys = append(n.Keys, key)
	n.Vals = append(n.Vals, v)
	return n
}

func (n *Node) Del(key string) {
	for i, k := range n.Keys {
		if k == key {
			n.Keys = append(n.Keys[:i:i], n.Keys[i+1:]...)
			n.Vals = append(n.Vals[:i:i], n.Vals[i+1:]...)
			return
		}
	}
}

// Obj returns the object member key, creating an empty object if missing.
func (n *Node) Obj(key string) *Node {
	if c := n.Get(key); c != nil {
		return c
	}
	c := O()
	n.Set(key, c)
	return c
}

func (n *Node) Str(key string) string {
	if c := n.Get(key); c != nil && c.K == 's' {
		return c.S
	}
	return ""
}

func (n *Node) Clone() *Node {
	if n == nil {
		return nil
	}
	c := &Node{K: n.K, S: n.S, B: n.B}
	if n.Keys != nil {
		c.Keys = append([]string(nil), n.Keys...)
		c.Vals = make([]*Node, len(n.Vals))
		for i, v := range n.Vals {
			c.Vals[i] = v.Clone()
		}
	}
	if n.Items != nil {
		c.Items = make([]*Node, len(n.Items))
		for i, v := range n.Items {
			c.Items[i] = v.Clone()
		}
	}
	return c
}

// At follows pointer tokens (already unescaped).
func (n *Node) At(tokens []string) *Node {
	cur := n
	for _, t := range tokens {
		if cur == nil {
			return nil
		}
		switch cur.K {
		case 'o':
			cur = cur.Get(t)
		case 'a':
			i, err := strconv.Atoi(t)
			if err != nil || i < 0 || i >= len(cur.Items) || (len(t) > 1 && t[0] == '0') {
				return nil
			}
			cur = cur.Items[i]
		default:
			return nil
		}
	}
	return cur
}

// Replace makes n a (shallow) copy of src in place, so that every holder of n
// sees the new content.
func (n *Node) Replace(src *Node) { *n = *src }

// span is the 1-based line range a node occupies in the emitted text.
type span struct{ From, To int }

type emitter struct {
	b     bytes.Buffer
	line  int
	spans map[*Node]span
}

// Emit pretty-prints the tree (one member per line, two-space indent) and
// reports for every node the lines it covers.
func Emit(n *Node) (string, map[*Node]span) {
	e := &emitter{line: 1, spans: map[*Node]span{}}
	e.emit(n, 0)
	e.b.WriteByte('\n')
	return e.b.String(), e.spans
}

func (e *emitter) nl(indent int) {
	e.b.WriteByte('\n')
	e.line++
	for i := 0; i < indent; i++ {
		e.b.WriteString("  ")
	}
}

func quote(s string) string {
	var b bytes.Buffer
	enc := json.NewEncoder(&b)
	enc.SetEscapeHTML(false)
	_ = enc.Encode(s)
	return strings.TrimRight(b.String(), "\n")
}

func (e *emitter) emit(n *Node, indent int) {
	from := e.line
	switch n.K {
	case 'o':
		if len(n.Keys) == 0 {
			e.b.WriteString("{}")
			break
		}
		e.b.WriteByte('{')
		for i, k := range n.Keys {
			e.nl(indent + 1)
			e.b.WriteString(quote(k))
			e.b.WriteString(": ")
			e.emit(n.Vals[i], indent+1)
			if i+1 < len(n.Keys) {
				e.b.WriteByte(',')
			}
		}
		e.nl(indent)
		e.b.WriteByte('}')
	case 'a':
		if len(n.Items) == 0 {
			e.b.WriteString("[]")
			break
		}
		e.b.WriteByte('[')
		for i, it := range n.Items {
			e.nl(indent + 1)
			e.emit(it, indent+1)
			if i+1 < len(n.Items) {
				e.b.WriteByte(',')
			}
		}
		e.nl(indent)
		e.b.WriteByte(']')
	case 's':
		e.b.WriteString(quote(n.S))
	case 'n':
		e.b.WriteString(n.S)
	case 'b':
		if n.B {
			e.b.WriteString("true")
		} else {
			e.b.WriteString("false")
		}
	default:
		e.b.WriteString("null")
	}
	e.spans[n] = span{from, e.line}
}

// Compact emits the tree on one line (used for the replayable case).
func Compact(n *Node) json.RawMessage {
	var b bytes.Buffer
	compact(&b, n)
	return b.Bytes()
}

func compact(b *bytes.Buffer, n *Node) {
	switch n.K {
	case 'o':
		b.WriteByte('{')
		for i, k := range n.Keys {
			if i > 0 {
				b.WriteByte(',')
			}
			b.WriteString(quote(k))
			b.WriteByte(':')
			compact(b, n.Vals[i])
		}
		b.WriteByte('}')
	case 'a':
		b.WriteByte('[')
		for i, it := range n.Items {
			if i > 0 {
				b.WriteByte(',')
			}
			compact(b, it)
		}
		b.WriteByte(']')
	case 's':
		b.WriteString(quote(n.S))
	case 'n':
		b.WriteString(n.S)
	case 'b':
		if n.B {
			b.WriteString("true")
		} else {
			b.WriteString("false")
		}
	default:
		b.WriteString("null")
	}
}

// ParseTree reads JSON text into an ordered tree.
func ParseTree(data []byte) (*Node, error) {
	dec := json.NewDecoder(bytes.NewReader(data))
	dec.UseNumber()
	n, err := parseValue(dec)
	if err != nil {
		return nil, err
	}
	if _, err := dec.Token(); err != io.EOF {
		return nil, fmt.Errorf("trailing data")
	}
	return n, nil
}

func parseValue(dec *json.Decoder) (*Node, error) {
	tok, err := dec.Token()
	if err != nil {
		return nil, err
	}
	switch t := tok.(type) {
	case json.Delim:
		switch t {
		case '{':
			n := &Node{K: 'o'}
			for dec.More() {
				kt, err := dec.Token()
				if err != nil {
					return nil, err
				}
				k, ok := kt.(string)
				if !ok {
					return nil, fmt.Errorf("bad key")
				}
				v, err := parseValue(dec)
				if err != nil {
					return nil, err
				}
				n.Keys = append(n.Keys, k)
				n.Vals = append(n.Vals, v)
			}
			_, err := dec.Token()
			return n, err
		case '[':
			n := &Node{K: 'a'}
			for dec.More() {
				v, err := parseValue(dec)
				if err != nil {
					return nil, err
				}
				n.Items = append(n.Items, v)
			}
			_, err := dec.Token()
			return n, err
		}
		return nil, fmt.Errorf("unexpected delimiter %v", t)
	case string:
		return S(t), nil
	case json.Number:
		return &Node{K: 'n', S: t.String()}, nil
	case bool:
		return Bo(t), nil
	case nil:
		return &Node{K: 'z'}, nil
	}
	return nil, fmt.Errorf("unexpected token %v", tok)
}
