package c07

import (
	"fmt"
	"net/url"
	"os"
	"reflect"
	"regexp"
	"sort"
	"strings"

	"github.com/go-faster/yaml"

	"github.com/ogen-go/ogen"
	"github.com/ogen-go/ogen/location"
	"github.com/ogen-go/ogen/openapi/parser"

	"verif/internal/vk"
)

// Result is what evaluating one case yields (it crosses the worker pipe).
type Result struct {
	Finding *vk.Finding    `json:"finding,omitempty"`
	Labels  []string       `json:"labels,omitempty"`
	NTKey   string         `json:"nt_key,omitempty"`
	Digest  map[string]any `json:"digest,omitempty"`
}

func (r *Result) label(format string, args ...any) {
	r.Labels = append(r.Labels, fmt.Sprintf(format, args...))
}

func knownSet() map[string]bool {
	m := map[string]bool{}
	for _, k := range strings.Split(os.Getenv("VERIF_KNOWN"), ",") {
		if k = strings.TrimSpace(k); k != "" {
			m[k] = true
		}
	}
	return m
}

// choose prefers a finding that is not listed as known, so that a known shape
// in the same case never hides a new violation.
func choose(fs []*vk.Finding) *vk.Finding {
	if len(fs) == 0 {
		return nil
	}
	known := knownSet()
	for _, f := range fs {
		if !known[f.Classifier] {
			return f
		}
	}
	return fs[0]
}

func kebab(s string) string {
	var b strings.Builder
	for _, r := range s {
		switch {
		case r >= 'A' && r <= 'Z':
			if b.Len() > 0 && !strings.HasSuffix(b.String(), "-") {
				b.WriteByte('-')
			}
			b.WriteRune(r + 32)
		case r >= 'a' && r <= 'z', r >= '0' && r <= '9':
			b.WriteRune(r)
		default:
			if b.Len() > 0 && !strings.HasSuffix(b.String(), "-") {
				b.WriteByte('-')
			}
		}
	}
	return strings.Trim(b.String(), "-")
}

func lastFields(np string, n int) string {
	parts := strings.Split(np, ".")
	if len(parts) > n {
		parts = parts[len(parts)-n:]
	}
	return strings.Join(parts, ".")
}

func hasTag(c Case, t string) bool {
	for _, x := range c.Tags {
		if x == t {
			return true
		}
	}
	return false
}

func shapeLabels(res *Result, sh Shape) {
	for _, k := range allKinds {
		if sh.SharedKinds[k] > 0 {
			res.label("shared:%s", k)
		}
		if sh.SharedNames[k] > 0 {
			res.label("shared-under-different-names:%s", k)
		}
	}
	if sh.CrossFile > 0 {
		res.label("cross-file-chain")
	}
	if sh.MaxChain > 0 {
		m := sh.MaxChain
		if m > 5 {
			m = 5
		}
		res.label("max-chain-%d", m)
	}
	if sh.Cyclic > 0 {
		res.label("has-cycle")
	}
	if sh.Weird > 0 {
		res.label("escaped-pointer")
	}
	if sh.HeaderShared {
		res.label("shape:header-shared-different-names")
	}
	if sh.PathItemShar {
		res.label("shape:path-item-shared")
	}
	if !sh.nonTrivial() {
		res.label("trivial")
	}
}

// classifyDiff names the root-cause shape of one difference between the API
// parsed from the spec (A) and the one parsed from its inlined form (B).
func classifyDiff(d Diff, sh Shape) string {
	np := normPath(d.Path)
	switch {
	case strings.HasSuffix(np, "Headers.Name") && sh.HeaderShared:
		// the header component was parsed once, for the first referrer's name
		return "header-ref-cached-name"
	case strings.Contains(np+".", "Operations.Path.") && sh.PathItemShar:
		// the path item component was parsed once, for the first referrer's path
		return "pathitem-ref-cached-path"
	case strings.HasSuffix(np, "Properties.Description") && d.A == `""`:
		return "property-description-not-taken-through-ref"
	case strings.HasSuffix(np, ".Examples") || np == "Examples":
		return "media-example-leaks-into-shared-schema"
	}
	return "api-differs-" + kebab(lastFields(np, 2))
}

// knownErrorClass names the known root cause of an error that only one of the
// two forms (or one of two runs: several of these depend on Go map order)
// reports, judged by the error text and the shapes present in the documents.
func knownErrorClass(sh Shape, msg string) string {
	switch {
	case sh.AbsRootRef && strings.Contains(msg, `can't find value for "c07/root.json#`):
		return "absolute-path-ref-to-root-taken-for-pointer"
	case sh.PercentName && (strings.Contains(msg, "invalid URL escape") || strings.Contains(msg, "can't find value")):
		return "percent-in-name-unescaped-twice"
	case sh.SameNameTargets && (strings.Contains(msg, "name conflict") || strings.Contains(msg, "sum types with same names")):
		// Go type names of referenced components come from the last pointer token only
		return "same-named-components-in-two-documents-collide"
	case wrapConflictRe.MatchString(msg):
		// wrapper named after the content type: two responses with the same
		// top-level component schema (or the same generic type) collide
		return "response-wrapper-named-after-content-type"
	}
	return ""
}

var requiredRecursionRe = regexp.MustCompile(`infinite recursion: \S+ is required`)

var (
	hdrRe    = regexp.MustCompile(`hdr:[^}]*`)
	opPathRe = regexp.MustCompile(`^([A-Z]+) \S+ `)
)

var defaultRe = regexp.MustCompile(` ?default\{[^}]*\}`)

var parenRe = regexp.MustCompile(`\([^)]*\)`)

var wrapConflictRe = regexp.MustCompile(`name conflict: "\w+(Headers|StatusCode|StatusCodeWithHeaders)"`)

func inlineKey(steps []Site) string {
	var b strings.Builder
	for _, s := range steps {
		b.WriteString(s.File + "#" + ptrString(s.Path) + ";")
	}
	return b.String()
}

func harness(format string, args ...any) Result {
	return Result{Finding: vk.F("harness-error", format, args...)}
}

// checkTransparency: oracles (1) and (2).
func checkTransparency(c Case) Result {
	var res Result
	docs, err := c.docs()
	if err != nil {
		return harness("case does not decode: %v", err)
	}
	sh := analyse(docs)
	shapeLabels(&res, sh)
	for _, t := range c.Tags {
		res.label("gen:%s", t)
	}
	for k, n := range c.Excluded {
		for i := 0; i < n; i++ {
			res.label("excluded:%s", k)
		}
	}
	if c.AllowKnown {
		res.label("known-shapes-allowed")
	}
	inl := docs.Clone()
	for _, s := range c.Inline {
		if err := inlineSite(inl, s); err != nil {
			return harness("inliner: %v", err)
		}
	}
	if sh.nonTrivial() && len(c.Inline) > 0 {
		res.NTKey = sh.Key + "||" + inlineKey(c.Inline)
	}
	res.Digest = map[string]any{
		"sites": sh.Sites, "shared": sh.SharedKinds, "shared_names": sh.SharedNames, "cross_file": sh.CrossFile,
		"max_chain": sh.MaxChain, "recursive_sites": sh.Cyclic, "inlined": len(c.Inline), "files": len(c.Files), "tags": c.Tags,
	}

	shInl := analyse(inl)
	ea, eb := emitAll(docs), emitAll(inl)
	pa, pb := runParse(ea, 0), runParse(eb, 0)
	var fs []*vk.Finding
	add := func(cl, format string, args ...any) { fs = append(fs, vk.F(cl, format, args...)) }
	switch {
	case pa.panicked != "" || pb.panicked != "":
		add("parse-panic", "parser.Parse panics (spec: %q, inlined: %q)", pa.panicked, pb.panicked)
	case pa.err != nil && pb.err == nil:
		res.label("parse:only-referenced-fails")
		cl := "parse-referenced-rejected-inlined-accepted"
		if k := knownErrorClass(sh, pa.err.Error()); k != "" {
			cl = k
		}
		add(cl, "the spec with references is rejected (%s) but its inlined form parses", stripPos(pa.err))
	case pa.err == nil && pb.err != nil:
		res.label("parse:only-inlined-fails")
		cl := "parse-referenced-accepted-inlined-rejected"
		if k := knownErrorClass(sh, pb.err.Error()); k != "" {
			cl = k
		}
		add(cl, "the spec with references parses but its inlined form is rejected: %s", stripPos(pb.err))
	case pa.err != nil:
		res.label("parse:both-fail:%s", kebab(quotedRe.ReplaceAllString(rootCause(pa.err), "")))
		if os.Getenv("C07_DEBUG") != "" {
			fmt.Printf("PARSEFAIL\n  A: %v\n  B: %v\n", stripPos(pa.err), stripPos(pb.err))
		}
		if ra, rb := rootCause(pa.err), rootCause(pb.err); ra != rb {
			cl := "parse-error-differs"
			if k := knownErrorClass(sh, pa.err.Error()+" "+pb.err.Error()); k != "" {
				cl = k
			}
			add(cl, "both forms are rejected but for different reasons: %q vs %q", ra, rb)
		}
	default:
		res.label("parse:both-ok")
		seen := map[string]bool{}
		for _, d := range compareValues(pa.api, pb.api, nil) {
			cl := classifyDiff(d, sh)
			if seen[cl] {
				continue
			}
			seen[cl] = true
			add(cl, "parsed API differs between the spec and its inlined form at %s (referenced: %s, inlined: %s)", d.Path, d.A, d.B)
		}
	}

	if pa.err == nil || pb.err == nil {
		convenient := -1
		if c.AllowKnown {
			convenient = 0 // auto
		}
		ga, gb := runGen(ea, convenient), runGen(eb, convenient)
		ca, cb := genClass(ga.err), genClass(gb.err)
		switch {
		case ga.panicked != "" || gb.panicked != "":
			add("gen-panic", "gen.NewGenerator panics (spec: %q, inlined: %q)", ga.panicked, gb.panicked)
		case ca != cb:
			res.label("gen:classes-differ")
			cl := "gen-outcome-differs"
			switch k := knownErrorClass(sh, fmt.Sprint(ga.err, " ", gb.err)); {
			case k != "":
				cl = k
			case sh.Cyclic > 0 && (ga.err == nil) != (gb.err == nil) && requiredRecursionRe.MatchString(fmt.Sprint(ga.err, gb.err)):
				// struct recursion is checked in type-name order: a required member
				// whose type reaches a cycle that is not broken yet is reported;
				// inlining renames the types and so changes the order
				cl = "schema-cycle-required-member-checked-before-optional"
			case sh.PathItemShar && (strings.Contains(fmt.Sprint(ga.err, gb.err), "conflict") || strings.Contains(fmt.Sprint(ga.err, gb.err), "duplicate method")):
				// two operations with one path: type names / routes collide. Either
				// form can be the one that hits the cache (the key of a reference
				// depends on how it is spelled)
				cl = "pathitem-ref-cached-path"
			case ga.err != nil && gb.err == nil:
				cl = "gen-referenced-fails-inlined-ok"
			case ga.err == nil && gb.err != nil:
				cl = "gen-referenced-ok-inlined-fails"
			}
			if len(fs) == 0 || cl != "gen-outcome-differs" {
				add(cl, "generation outcome differs: with references %q (%s), inlined %q (%s)", ca, stripPos(ga.err), cb, stripPos(gb.err))
			}
		case ga.err != nil:
			res.label("gen:both-fail:%s", kebab(ca))
			if os.Getenv("C07_DEBUG") != "" {
				fmt.Printf("GENFAIL %s\n  A: %v\n  B: %v\n", ca, stripPos(ga.err), stripPos(gb.err))
			}
		default:
			res.label("gen:both-ok")
			sa, sb := genSignature(ga.g), genSignature(gb.g)
			if a, b := strings.Join(sa, "\n"), strings.Join(sb, "\n"); a != b && len(fs) == 0 {
				cl := "gen-operations-differ"
				// Known causes change the signature in a known way; undo them one
				// by one (several can be present in one case) and name the finding
				// after the one that makes the rest equal.
				na, nb := a, b
				steps := []struct {
					applies bool
					norm    func(string) string
					cl      string
				}{
					// the IR of a response component is built once, for the first
					// referrer: with or without the StatusCode field
					{sh.ResponseCodeAndPattern, func(s string) string {
						s = strings.NewReplacer("StatusCode,", "", ",StatusCode", "", "(StatusCode)", "()").Replace(s)
						return strings.NewReplacer("(Response)", "", "()", "").Replace(s)
					}, "response-ref-cached-status-code-wrapper"},
					// the wrapper is looked up by the content schema's reference only:
					// a second response with other headers gets the first one's wrapper
					{sh.LiteralResponsesShareSchema || shInl.LiteralResponsesShareSchema,
						func(s string) string { return parenRe.ReplaceAllString(s, "") },
						"response-wrapper-named-after-content-type"},
					// which referrer's name a shared header keeps depends on Go map
					// order, so the parse inside NewGenerator may differ from the one
					// compared above
					{sh.HeaderShared || shInl.HeaderShared,
						func(s string) string { return hdrRe.ReplaceAllString(parenRe.ReplaceAllString(s, ""), "hdr:") },
						"header-ref-cached-name"},
					{sh.PathItemShar || shInl.PathItemShar, func(s string) string {
						lines := strings.Split(s, "\n")
						for i, l := range lines {
							lines[i] = opPathRe.ReplaceAllString(l, "$1 PATH ")
						}
						sort.Strings(lines)
						return strings.Join(lines, "\n")
					}, "pathitem-ref-cached-path"},
					// last (it erases every default response): auto "convenient errors": equal default responses are recognised
					// when given by one $ref, not always when given as equal copies
					{c.AllowKnown, func(s string) string { return defaultRe.ReplaceAllString(s, "") },
						"convenient-errors-not-recognised-for-inlined-defaults"},
				}
				for _, st := range steps {
					if !st.applies {
						continue
					}
					na, nb = st.norm(na), st.norm(nb)
					if na == nb {
						cl = st.cl
						break
					}
				}
				add(cl, "generated operations differ:\nwith references:\n%s\ninlined:\n%s", a, b)
			}
			da, db := duplicateFields(ga.g), duplicateFields(gb.g)
			if a, b := strings.Join(da, ","), strings.Join(db, ","); a != b {
				cl := "gen-duplicate-struct-field"
				if sh.HeaderShared {
					cl = "header-ref-cached-name"
				}
				add(cl, "generated struct types declare a field twice: with references [%s], inlined [%s]", a, b)
			}
		}
	}
	// outcome of the structured shapes, for the evidence
	for _, t := range c.Tags {
		for _, g := range []string{"excursion:", "sumtree:", "override:"} {
			if strings.HasPrefix(t, g) {
				for _, l := range res.Labels {
					if strings.HasPrefix(l, "gen:both-") || l == "gen:classes-differ" || strings.HasPrefix(l, "parse:") {
						res.label("%s => %s", t, l)
					}
				}
			}
		}
	}
	res.Finding = choose(fs)
	return res
}

// checkExpand: oracle (4). parser.Expand → YAML → parse must give an API that
// is equivalent to the original one (operations, webhooks, servers, info,
// tags; the component maps are reorganised by design and not compared).
func checkExpand(c Case) Result {
	var res Result
	docs, err := c.docs()
	if err != nil {
		return harness("case does not decode: %v", err)
	}
	sh := analyse(docs)
	shapeLabels(&res, sh)
	for _, t := range c.Tags {
		res.label("gen:%s", t)
	}
	ea := emitAll(docs)
	pa := runParse(ea, 0)
	if pa.panicked != "" {
		res.Finding = vk.F("parse-panic", "parser.Parse panics: %s", pa.panicked)
		return res
	}
	if pa.err != nil {
		res.label("parse-fails:%s", kebab(quotedRe.ReplaceAllString(rootCause(pa.err), "")))
		return res
	}
	if sh.nonTrivial() {
		res.NTKey = sh.Key
	}
	res.Digest = map[string]any{"sites": sh.Sites, "shared": sh.SharedKinds, "cross_file": sh.CrossFile, "max_chain": sh.MaxChain, "files": len(c.Files)}
	var (
		spec2 *ogen.Spec
		data  []byte
	)
	if p := guard(func() { spec2, err = parser.Expand(pa.api) }); p != "" {
		res.Finding = vk.F("expand-panic", "parser.Expand panics: %s", p)
		return res
	}
	if err != nil {
		if strings.Contains(err.Error(), "conflict") {
			// two different targets whose pointers end in the same name: reported, not silently merged
			res.label("expand:name-conflict-reported")
			return res
		}
		cl := "expand-error"
		if sh.PathItemShar && strings.Contains(err.Error(), "already contains") {
			cl = "pathitem-ref-cached-path"
		}
		res.Finding = vk.F(cl, "parser.Expand fails on an API that parsed: %s", stripPos(err))
		return res
	}
	if p := guard(func() { data, err = yaml.Marshal(spec2) }); p != "" || err != nil {
		res.Finding = vk.F("expand-marshal", "expanded spec cannot be marshalled: %v %s", err, p)
		return res
	}
	var pb outcome
	pb.panicked = guard(func() {
		spec3, err := ogen.Parse(data)
		if err != nil {
			pb.err = fmt.Errorf("ogen.Parse: %w", err)
			return
		}
		pb.api, pb.err = parser.Parse(spec3, parser.Settings{File: location.NewFile("expanded.yaml", "/c07/expanded.yaml", data)})
	})
	switch {
	case pb.panicked != "":
		res.Finding = vk.F("parse-panic", "parsing the expanded spec panics: %s", pb.panicked)
	case pb.err != nil:
		cl := "expand-output-rejected"
		if bad := badComponentNames(spec2); len(bad) > 0 {
			// decided on the expanded document, not on the wording of the refusal: Expand created a
			// component whose name is outside the character set OpenAPI allows for component names
			cl = "expand-component-name-from-escaped-pointer"
		}
		res.Finding = vk.F(cl, "the expanded spec does not parse back: %s", stripPos(pb.err))
	default:
		res.label("expand:round-trip-ok")
		skip := func(p string) bool { return p == ".Components" }
		var fs []*vk.Finding
		seen := map[string]bool{}
		for _, d := range compareValues(pa.api, pb.api, skip) {
			np := normPath(d.Path)
			cl := "expand-differs-" + kebab(lastFields(np, 2))
			switch {
			case strings.HasSuffix(np, ".Default") || strings.HasSuffix(np, ".DefaultSet"):
				cl = "expand-drops-schema-default"
			case strings.Contains(np, ".Example"):
				cl = "expand-drops-examples"
			case strings.HasSuffix(np, "Headers.Name") && sh.HeaderShared:
				cl = "header-ref-cached-name"
			case strings.Contains(np+".", "Operations.Path.") && sh.PathItemShar:
				cl = "pathitem-ref-cached-path"
			}
			if !seen[cl] {
				seen[cl] = true
				fs = append(fs, vk.F(cl, "API parsed from the expanded spec differs at %s (original: %s, expanded: %s)", d.Path, d.A, d.B))
			}
		}
		res.Finding = choose(fs)
	}
	return res
}

func sourcePath(src string) string {
	if strings.HasPrefix(src, "file:") {
		if u, err := url.Parse(src); err == nil {
			return u.Path
		}
	}
	return src
}

// checkCycle: oracle (3) for reference cycles and over-deep chains.
func checkCycle(c Case) Result {
	var res Result
	docs, err := c.docs()
	if err != nil {
		return harness("case does not decode: %v", err)
	}
	if c.Expect == nil {
		return harness("cycle case without expectation")
	}
	ex := c.Expect
	for _, t := range c.Tags {
		res.label("gen:%s", t)
	}
	for k, n := range c.Excluded {
		for i := 0; i < n; i++ {
			res.label("excluded:%s", k)
		}
	}
	res.label("expect:%s", ex.Outcome)
	res.label("kind:%s", ex.Kind)
	sh := analyse(docs)
	res.NTKey = sh.Key + fmt.Sprintf("||limit=%d", c.DepthLimit)
	res.Digest = map[string]any{"kind": ex.Kind, "len": ex.Len, "expect": ex.Outcome, "files": len(c.Files), "depth_limit": c.DepthLimit, "tags": c.Tags}

	ea := emitAll(docs)
	pa := runParse(ea, c.DepthLimit)
	if pa.panicked != "" {
		res.Finding = vk.F("parse-panic", "parser.Parse panics: %s", pa.panicked)
		return res
	}
	var ga genOutcome
	withGen := c.DepthLimit == 0
	if withGen {
		ga = runGen(ea, 0)
		if ga.panicked != "" {
			res.Finding = vk.F("gen-panic", "gen.NewGenerator panics: %s", ga.panicked)
			return res
		}
	}
	mentionsRecursion := func(err error) bool { return err != nil && strings.Contains(err.Error(), "infinite recursion") }
	for _, err := range []error{pa.err, ga.err} {
		if err != nil && !mentionsRecursion(err) && !strings.Contains(err.Error(), "depth limit") {
			if k := knownErrorClass(sh, err.Error()); k != "" {
				res.Finding = vk.F(k, "%s cycle/chain of length %d: rejected for an unrelated known reason: %s", ex.Kind, ex.Len, stripPos(err))
				return res
			}
		}
	}
	inMember := func(err error) (string, bool) {
		file, line, ok := position(err)
		if !ok {
			return "no position", false
		}
		file = sourcePath(file)
		var spans []string
		for _, m := range ex.Members {
			d := docs[m.File]
			if d == nil {
				continue
			}
			n := d.At(m.Path)
			if n == nil {
				continue
			}
			sp := ea.spans[m.File][n]
			spans = append(spans, fmt.Sprintf("%s:%d-%d", m.File, sp.From, sp.To))
			if m.File == file && line >= sp.From && line <= sp.To {
				return "", true
			}
		}
		sort.Strings(spans)
		return fmt.Sprintf("position %s:%d is outside the cycle members %v", file, line, spans), false
	}
	// a recursion error for a cycle that must yield a recursive type
	spurious := func() string {
		if hasTag(c, "schema-cycle:entered-at-alias") {
			return "schema-cycle-entered-at-alias-rejected"
		}
		for _, m := range ex.Members {
			if strings.Contains((&url.URL{Fragment: ptrString(m.Path)}).EscapedFragment(), "%") {
				// the same target is keyed once by its escaped and once by its
				// unescaped spelling, so the cache that breaks recursion misses
				return "refkey-percent-spelling-not-normalised"
			}
		}
		return "schema-cycle-rejected-by-parser"
	}
	switch ex.Outcome {
	case "error-recursion":
		switch {
		case pa.err == nil:
			res.Finding = vk.F("cycle-not-detected", "a %s reference cycle of length %d parses without error", ex.Kind, ex.Len)
		case !mentionsRecursion(pa.err):
			res.Finding = vk.F("cycle-wrong-diagnostic", "a %s reference cycle of length %d is rejected without the infinite-recursion diagnostic: %s", ex.Kind, ex.Len, stripPos(pa.err))
		default:
			if why, ok := inMember(pa.err); !ok {
				res.Finding = vk.F("cycle-error-not-located-in-cycle", "%s cycle of length %d: %s (error: %s)", ex.Kind, ex.Len, why, pa.err)
			}
		}
		res.label("outcome:parse-error")
	case "gen-recursion":
		switch {
		case mentionsRecursion(pa.err):
			res.Finding = vk.F(spurious(), "a schema cycle through properties is rejected by the parser: %s", stripPos(pa.err))
		case pa.err != nil:
			res.Finding = vk.F("schema-cycle-rejected-by-parser", "a schema cycle through properties is rejected by the parser: %s", stripPos(pa.err))
		case withGen && ga.err == nil:
			res.Finding = vk.F("required-schema-cycle-accepted", "a schema cycle through required non-nullable members generates (infinitely sized Go type)")
		case withGen && !mentionsRecursion(ga.err):
			res.Finding = vk.F("required-schema-cycle-wrong-diagnostic", "a schema cycle through required members fails without the infinite-recursion diagnostic: %s", stripPos(ga.err))
		}
		res.label("outcome:gen-error")
	case "ok":
		switch {
		case mentionsRecursion(pa.err):
			res.Finding = vk.F(spurious(), "a recursive schema (cycle broken by an optional/array/map member) is rejected by the parser: %s", stripPos(pa.err))
		case pa.err != nil:
			res.Finding = vk.F("schema-cycle-rejected-by-parser", "a recursive schema (cycle broken by an optional/array/map member) is rejected by the parser: %s", stripPos(pa.err))
		case withGen && mentionsRecursion(ga.err) && strings.Contains(ga.err.Error(), "is required") && hasTag(c, "schema-cycle:required-and-optional-members"):
			// the struct with the required member is finished (and checked) before
			// the optional member of the other struct has been boxed
			res.Finding = vk.F("schema-cycle-required-member-checked-before-optional", "a recursive schema whose cycle is broken by an optional member is rejected: %s", stripPos(ga.err))
		case withGen && ga.err != nil:
			res.Finding = vk.F("schema-cycle-rejected-by-generator", "a recursive schema (cycle broken by an optional/array/map member) is rejected by the generator: %s", stripPos(ga.err))
		}
		res.label("outcome:ok")
	case "terminates":
		// no crash, no hang (the worker process and its watchdog decide that);
		// an error about the cycle itself must name it
		switch {
		case pa.err != nil:
			res.label("outcome:parse-error")
		case withGen && ga.err != nil:
			res.label("outcome:gen-error")
		default:
			res.label("outcome:ok")
		}
	case "error-depth":
		switch {
		case pa.err == nil:
			res.Finding = vk.F("depth-limit-not-enforced", "a chain of %d nested references parses with depth limit %d", ex.Len, c.DepthLimit)
		case !strings.Contains(pa.err.Error(), "depth limit"):
			res.Finding = vk.F("depth-limit-wrong-diagnostic", "a chain of %d nested references (limit %d) fails without mentioning the depth limit: %s", ex.Len, c.DepthLimit, stripPos(pa.err))
		case withGen && (ga.err == nil || !strings.Contains(ga.err.Error(), "depth limit")):
			res.Finding = vk.F("depth-limit-not-enforced", "generator: a chain of %d nested references: %v", ex.Len, ga.err)
		}
		res.label("outcome:parse-error")
	case "ok-depth":
		switch {
		case pa.err != nil:
			res.Finding = vk.F("depth-limit-too-strict", "a chain of %d nested references is rejected with depth limit %d: %s", ex.Len, c.DepthLimit, stripPos(pa.err))
		case withGen && ga.err != nil:
			res.Finding = vk.F("depth-limit-too-strict", "generator: a chain of %d nested references is rejected: %s", ex.Len, stripPos(ga.err))
		}
		res.label("outcome:ok")
	default:
		return harness("unknown expectation %q", ex.Outcome)
	}
	return res
}

var componentNameRe = regexp.MustCompile(`^[a-zA-Z0-9.\-_]+$`)

// badComponentNames lists the keys of the component maps of a document that OpenAPI does not allow
// as component names.
func badComponentNames(spec *ogen.Spec) []string {
	if spec == nil || spec.Components == nil {
		return nil
	}
	var out []string
	v := reflect.ValueOf(spec.Components).Elem()
	for i := 0; i < v.NumField(); i++ {
		f := v.Field(i)
		if f.Kind() != reflect.Map || f.Type().Key().Kind() != reflect.String {
			continue
		}
		for _, k := range f.MapKeys() {
			if !componentNameRe.MatchString(k.String()) {
				out = append(out, k.String())
			}
		}
	}
	sort.Strings(out)
	return out
}
