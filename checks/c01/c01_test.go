// Package c01 decides property C01 (generated client and server exchange values
// without silent change) on code regenerated from /repo; documents come from
// the exchange profile of internal/specgen (every admitted parameter style
// cell, JSON bodies, response codes / patterns / default / headers), values
// from the reflective builder (classes core and hostile); the executor is
// internal/c01x.
package c01

import (
	"encoding/json"
	"fmt"
	"os"
	"sort"
	"strings"
	"testing"

	"github.com/ogen-go/ogen/gen"
	"github.com/ogen-go/ogen/gen/ir"

	"pgregory.net/rapid"

	"verif/internal/c01x"
	"verif/internal/regen"
	"verif/internal/specgen"
	"verif/internal/vk"
)

type specCase struct {
	Meta   c01x.Meta    `json:"meta"`
	Config regen.Config `json:"config"`
}

type batchCase struct {
	Specs []specCase `json:"specs"`
}

var configs = []regen.Config{
	regen.ClientServer(),
	{DisableAll: true, Enable: []string{"paths/client", "paths/server", "client/request/validation", "server/response/validation"}},
	{DisableAll: true, Enable: []string{"paths/client", "paths/server", "client/request/options"}},
	{}, // defaults (with OpenTelemetry)
	{DisableAll: true, Enable: []string{"paths/client", "paths/server"}, ConvenientErrors: "off"},
}

func drawSpec(t *rapid.T) specCase {
	tf := rapid.SampledFrom([]string{"date-time", "date-time", "date", "time"}).Draw(t, "timeformat")
	eo := specgen.ExchangeOptions{Formats: rapid.IntRange(0, 2).Draw(t, "formats") == 0, TimeFormat: tf}
	doc := specgen.GenExchangeDoc(t, eo)
	return specCase{Meta: c01x.Meta{Doc: doc, TimeFormat: tf}, Config: configs[rapid.IntRange(0, len(configs)-1).Draw(t, "config")]}
}

func drawBatch(t *rapid.T) batchCase {
	var b batchCase
	for i := 0; i < 12; i++ {
		b.Specs = append(b.Specs, drawSpec(t))
	}
	return b
}

func runBatch(u *vk.Unit, tag string, specs []specCase) {
	b, err := regen.NewBatch(tag)
	if err != nil {
		u.T.Fatalf("batch: %v", err)
	}
	defer b.Remove()
	for i, sc := range specs {
		// response wrapper types and the status classes they serve come from the generator's IR
		// (reflection cannot see them): generate once in memory, then for real with the completed meta
		if pre := regen.Generate(sc.Meta.Doc.Render(), sc.Config, "", "api"); pre.Class == regen.OK && pre.Gen != nil {
			sc.Meta.StatusTable, sc.Meta.Explicit = statusTable(pre.Gen)
		}
		out := b.Add(fmt.Sprintf("s%d", i), sc.Meta.Doc.Render(), sc.Config, sc.Meta)
		u.Eval(1)
		u.Label("generate:" + out.Class)
		switch out.Class {
		case regen.OK, regen.NotImplemented, regen.SpecDiagnostic:
		default:
			u.Report(vk.F("generator-"+out.Class, "generation ends with %s: %s", out.Class, tail(out.Err, 600)), sc.Meta.Doc)
		}
	}
	if len(b.Pkgs) == 0 {
		return
	}
	res := b.Build()
	for _, e := range res.Failed {
		u.Label("compile-failed")
		u.Note("compile failure (C02's business, counted only): %s", tail(e, 300))
	}
	if len(res.OK) == 0 {
		return
	}
	u.LabelN("compiled", len(res.OK))
	out, err := b.RunAggregator(res.OK, "verif/internal/c01x", "Run", false, []string{"VERIF_PART=" + tag})
	if err != nil && !strings.Contains(out, "VIOLATION") {
		u.T.Errorf("aggregator failed (harness trouble): %v\n%s", err, tail(out, 3000))
	}
	if strings.Contains(out, "HARNESS:") {
		u.T.Errorf("harness problem reported by the executor:\n%s", tail(out, 3000))
	}
}

func statusTable(g *gen.Generator) (map[string]map[string][]string, map[string][]int) {
	table := map[string]map[string][]string{}
	explicit := map[string][]int{}
	add := func(op string, r *ir.Response, class string) {
		if r == nil {
			return
		}
		if table[op] == nil {
			table[op] = map[string][]string{}
		}
		names := []string{}
		if r.NoContent != nil {
			names = append(names, r.NoContent.Name)
		}
		for _, m := range r.Contents {
			if m.Type != nil {
				names = append(names, m.Type.Name)
			}
		}
		for _, n := range names {
			if n != "" {
				table[op][n] = append(table[op][n], class)
			}
		}
	}
	for _, op := range g.Operations() {
		if op.Responses == nil {
			continue
		}
		for code := range op.Responses.StatusCode {
			explicit[op.Name] = append(explicit[op.Name], code)
		}
		sort.Ints(explicit[op.Name])
		for i, r := range op.Responses.Pattern {
			add(op.Name, r, fmt.Sprintf("%dXX", i+1))
		}
		add(op.Name, op.Responses.Default, "default")
	}
	return table, explicit
}

func tail(s string, n int) string {
	if len(s) > n {
		return "…" + s[len(s)-n:]
	}
	return s
}

func TestExchange(t *testing.T) {
	u := vk.New(t, "C01", "specs")
	defer u.Close()
	if p := os.Getenv("VERIF_REPLAY"); p != "" {
		data, err := os.ReadFile(p)
		if err != nil {
			t.Fatal(err)
		}
		var doc struct {
			Unit string    `json:"unit"`
			Case c01x.Case `json:"case"`
		}
		if err := json.Unmarshal(data, &doc); err != nil || doc.Unit != "exchange" {
			return
		}
		c := doc.Case
		m := c01x.Meta{Doc: c.Doc, TimeFormat: c.TimeFormat, OnlyOp: c.Op, OnlySeed: c.Seed, OnlyClass: c.Class, Replay: true}
		// the configuration is not part of the case: try all of them
		var specs []specCase
		for _, cfg := range configs {
			specs = append(specs, specCase{Meta: m, Config: cfg})
		}
		runBatch(u, "replay", specs)
		return
	}
	n := 0
	vk.Rapid(u, vk.N(4, 160), nil, drawBatch, func(b batchCase) *vk.Finding {
		n++
		runBatch(u, fmt.Sprintf("b%d", n), b.Specs)
		return nil
	})
}
