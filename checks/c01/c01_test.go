// Package c01 decides property C01 (generated client and server exchange values
// without silent change) on code regenerated from /repo; documents come from
// the exchange profile of internal/specgen (every admitted parameter style
// cell, JSON bodies, response codes / patterns / default / headers), values
// from the reflective builder (classes core and hostile); the executor is
// internal/c01x.
package c01

import (
	"encoding/json"
	"fmt"
	"os"
	"testing"

	"verif/internal/c01x"
	"verif/internal/specgen"
	"verif/internal/vk"
)

func TestExchange(t *testing.T) {
	u := vk.New(t, "C01", "specs")
	defer u.Close()
	if p := os.Getenv("VERIF_REPLAY"); p != "" {
		data, err := os.ReadFile(p)
		if err != nil {
			t.Fatal(err)
		}
		var doc struct {
			Unit string    `json:"unit"`
			Case c01x.Case `json:"case"`
		}
		if err := json.Unmarshal(data, &doc); err != nil || doc.Unit != "exchange" {
			return
		}
		c := doc.Case
		m := c01x.Meta{Doc: c.Doc, TimeFormat: c.TimeFormat, OnlyOp: c.Op, OnlySeed: c.Seed, OnlyClass: c.Class, Replay: true}
		// the configuration is not part of the case: try all of them
		var specs []c01x.SpecCase
		for _, cfg := range c01x.Configs {
			specs = append(specs, c01x.SpecCase{Meta: m, Config: cfg})
		}
		c01x.RunBatch(u, "replay", specs, "Run", false)
		return
	}
	n := 0
	vk.Rapid(u, vk.N(4, 160), nil, c01x.DrawBatch, func(b c01x.BatchCase) *vk.Finding {
		n++
		c01x.RunBatch(u, fmt.Sprintf("b%d", n), b.Specs, "Run", false)
		return nil
	})
}

// TestCorpus runs the same executor on packages regenerated from the repository corpus
// (time formats other than date-time cannot be told apart by reflection there: time.Time
// leaves are generated at whole seconds, and documents with date/time formats may
// legitimately report non-delivery, which the executor tolerates for invalid values only —
// see the corpus note in checks.d).
func TestCorpus(t *testing.T) {
	u := vk.New(t, "C01", "corpus-specs")
	defer u.Close()
	if vk.InReplay() {
		return
	}
	specs := c01x.CorpusSpecs(vk.N(120_000, 700_000))
	const per = 6
	for i := 0; i < len(specs); i += per {
		c01x.RunBatchOut(u, fmt.Sprintf("corpus%d", i), specs[i:min(i+per, len(specs))], "Run", false)
	}
}

// TestFormatMatrix drives the fixed parameter-format documents (every type/format pair as a parameter
// in every location, as an array item and as a response header; one document per time format).
func TestFormatMatrix(t *testing.T) {
	u := vk.New(t, "C01", "format-matrix")
	defer u.Close()
	if vk.InReplay() {
		return
	}
	shard, shards := vk.Shard()
	var specs []c01x.SpecCase
	for i, m := range specgen.ParamFormatMatrix() {
		if i%shards != shard {
			continue
		}
		u.Eval(1)
		u.Label("time-format:" + m.TimeFormat)
		specs = append(specs, c01x.SpecCase{Meta: c01x.Meta{Doc: m.Doc, TimeFormat: m.TimeFormat}, Config: c01x.Configs[i%len(c01x.Configs)]})
	}
	if len(specs) > 0 {
		c01x.RunBatch(u, "fmatrix", specs, "Run", false)
	}
}
