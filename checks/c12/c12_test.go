// Package c12 decides property C12 (path normalisation is total, canonical,
// idempotent and meaning-preserving) at the library and spec level. The
// request-level clause (equivalent re-escapings reach the same operation) is
// checked on regenerated servers by the router harness (checks/c05, unit
// "respell"), which reports under C12 as well.
package c12

import (
	"encoding/json"
	"fmt"
	"net/url"
	"os"
	"strings"
	"testing"

	"pgregory.net/rapid"

	"github.com/ogen-go/ogen"
	"github.com/ogen-go/ogen/openapi/parser"
	"github.com/ogen-go/ogen/uri"

	"verif/internal/c05x"
	"verif/internal/vk"
)

// ---- reference -------------------------------------------------------------

func isHex(c byte) bool {
	return c >= '0' && c <= '9' || c >= 'a' && c <= 'f' || c >= 'A' && c <= 'F'
}

func hexVal(c byte) byte {
	switch {
	case c >= '0' && c <= '9':
		return c - '0'
	case c >= 'a' && c <= 'f':
		return c - 'a' + 10
	default:
		return c - 'A' + 10
	}
}

// RFC 3986 §2.3 unreserved.
func unreserved(c byte) bool {
	return c >= 'a' && c <= 'z' || c >= 'A' && c <= 'Z' || c >= '0' && c <= '9' ||
		c == '-' || c == '.' || c == '_' || c == '~'
}

// refNormalize is the token-wise reference: every '%' must be followed by two
// hex digits, else ("", false); an escape of an unreserved byte becomes the
// byte, any other escape is upper-cased, every other byte is copied.
func refNormalize(s string) (string, bool) {
	var b strings.Builder
	for i := 0; i < len(s); {
		if s[i] != '%' {
			b.WriteByte(s[i])
			i++
			continue
		}
		if i+2 >= len(s) || !isHex(s[i+1]) || !isHex(s[i+2]) {
			return "", false
		}
		c := hexVal(s[i+1])<<4 | hexVal(s[i+2])
		if unreserved(c) {
			b.WriteByte(c)
		} else {
			b.WriteByte('%')
			b.WriteByte("0123456789ABCDEF"[c>>4])
			b.WriteByte("0123456789ABCDEF"[c&15])
		}
		i += 3
	}
	return b.String(), true
}

type normCase struct {
	S string `json:"s"`
}

func wellFormedEscapes(s string) (n int, malformedAfterGood bool) {
	for i := 0; i < len(s); i++ {
		if s[i] != '%' {
			continue
		}
		if i+2 < len(s) && isHex(s[i+1]) && isHex(s[i+2]) {
			n++
			i += 2
		} else if n > 0 {
			malformedAfterGood = true
		}
	}
	return
}

func checkNormalize(c normCase) *vk.Finding {
	s := c.S
	return vk.Guard("normalize-panic", func() *vk.Finding {
		got, ok := uri.NormalizeEscapedPath(s)
		want, wantOK := refNormalize(s)
		if ok != wantOK {
			if ok {
				return vk.F("normalize-accepts-malformed", "NormalizeEscapedPath(%q) = (%q, true) but the input has an invalid percent-escape", s, got)
			}
			return vk.F("normalize-rejects-wellformed", "NormalizeEscapedPath(%q) = (_, false) but every escape is well-formed", s)
		}
		if !ok {
			if got != "" {
				return vk.F("normalize-wrong-output", "NormalizeEscapedPath(%q) reports invalid but returns %q", s, got)
			}
			return nil
		}
		if got != want {
			return vk.F("normalize-wrong-output", "NormalizeEscapedPath(%q) = %q, reference %q", s, got, want)
		}
		// independent of the token-wise reference: same octets, canonical, idempotent
		a, errA := url.PathUnescape(s)
		b, errB := url.PathUnescape(got)
		if errA != nil || errB != nil || a != b {
			return vk.F("normalize-octets-differ", "NormalizeEscapedPath(%q) = %q decodes to %q, input decodes to %q (%v/%v)", s, got, b, a, errA, errB)
		}
		for i := 0; i+2 < len(got); i++ {
			if got[i] == '%' {
				x, y := got[i+1], got[i+2]
				if x >= 'a' && x <= 'f' || y >= 'a' && y <= 'f' {
					return vk.F("normalize-wrong-output", "NormalizeEscapedPath(%q) = %q keeps lower-case hex", s, got)
				}
				if unreserved(hexVal(x)<<4 | hexVal(y)) {
					return vk.F("normalize-wrong-output", "NormalizeEscapedPath(%q) = %q keeps an unreserved byte escaped", s, got)
				}
			}
		}
		again, ok2 := uri.NormalizeEscapedPath(got)
		if !ok2 || again != got {
			return vk.F("normalize-not-idempotent", "N(%q) = %q but N(N) = (%q,%v)", s, got, again, ok2)
		}
		return nil
	})
}

var alphabet = []byte{'%', '0', 'a', 'A', 'f', 'F', 'g', '2', '-', '/', '~'}

// hostile constants: shapes reading the code pointed at (fast scan → slow path)
var regressNormalize = []normCase{
	{""}, {"%"}, {"%0"}, {"%0a"}, {"%0a%"}, {"%0A%"}, {"%41%"}, {"%41%4"}, {"%0a%zz"}, {"%41%g0"},
	{"%2f%2F"}, {"/a%2fb"}, {"/%7e%7E~"}, {"%%%"}, {"%25"}, {"%2525"}, {"/%e4%b8%96"}, {"/a%0a%"},
	{"%61%"}, {"%61%6"}, {"/user/%6a%6F"}, {"%ff%FF%fF"}, {"%2d%2e%5f%7e"}, {"a%"}, {"a%a"}, {"%aG"},
}

func TestNormalizeExhaustive(t *testing.T) {
	u := vk.New(t, "C12", "normalize-exhaustive")
	defer u.Close()
	if c, ok := vk.ReplayOnly[normCase](u); ok {
		u.Eval(1)
		if f := checkNormalize(c); f != nil {
			u.Report(f, c)
		}
		return
	}
	if vk.InReplay() {
		return
	}
	for _, c := range regressNormalize {
		vk.Each(u, c, checkNormalize)
	}
	maxLen := vk.N(6, 8)
	shard, shards := vk.Shard()
	u.Set("alphabet", string(alphabet))
	u.Set("max_len", maxLen)
	u.SetExhaustive(true)
	buf := make([]byte, 0, maxLen)
	var idx int64
	var nontrivial, evals int
	var rec func(depth int)
	rec = func(depth int) {
		// the string in buf (length depth) is one case; shard by running index
		if idx%int64(shards) == int64(shard) {
			s := string(buf)
			evals++
			f := checkNormalize(normCase{s})
			if f != nil {
				u.Report(f, normCase{s})
			}
			n, bad := wellFormedEscapes(s)
			if n > 0 {
				if out, ok := refNormalize(s); bad || (ok && out != s) {
					nontrivial++
					if nontrivial%50000 == 1 {
						u.Sample(map[string]any{"in": s, "ref_out": out, "ref_ok": ok})
					}
				}
			}
		}
		idx++
		if depth == maxLen {
			return
		}
		for _, a := range alphabet {
			buf = append(buf, a)
			rec(depth + 1)
			buf = buf[:depth]
		}
	}
	rec(0)
	u.Eval(evals)
	u.NonTrivialCount(nontrivial)
	u.LabelN("enumerated", evals)
}

func drawNormalize(t *rapid.T) normCase {
	// pieces: raw bytes, well-formed escapes (any byte, random case), broken escapes
	n := rapid.IntRange(0, 12).Draw(t, "pieces")
	var b strings.Builder
	for i := 0; i < n; i++ {
		switch rapid.IntRange(0, 9).Draw(t, "kind") {
		case 0, 1, 2:
			b.WriteByte(rapid.Byte().Draw(t, "raw"))
		case 3, 4, 5, 6:
			v := rapid.Byte().Draw(t, "esc")
			h := fmt.Sprintf("%02x", v)
			hb := []byte(h)
			for j := range hb {
				if rapid.Bool().Draw(t, "up") {
					hb[j] = strings.ToUpper(string(hb[j]))[0]
				}
			}
			b.WriteByte('%')
			b.Write(hb)
		case 7:
			b.WriteString(rapid.SampledFrom([]string{"%", "%4", "%g1", "%1g", "%%", "% 1", "%-1", "%+1"}).Draw(t, "bad"))
		case 8:
			b.WriteString(rapid.StringMatching(`[a-z/{}.~_-]{0,4}`).Draw(t, "txt"))
		case 9:
			b.WriteString(rapid.String().Draw(t, "uni"))
		}
	}
	return normCase{b.String()}
}

func TestNormalizeRandom(t *testing.T) {
	u := vk.New(t, "C12", "normalize-random")
	defer u.Close()
	vk.Rapid(u, vk.N(200_000, 5_000_000), nil, drawNormalize, func(c normCase) *vk.Finding {
		n, bad := wellFormedEscapes(c.S)
		if n > 0 {
			if out, ok := refNormalize(c.S); bad || (ok && out != c.S) {
				u.NonTrivial(c.S)
				u.Sample(c)
			}
			if bad {
				u.Label("malformed-after-wellformed")
			} else {
				u.Label("wellformed")
			}
		} else {
			u.Label("no-wellformed-escape")
		}
		return checkNormalize(c)
	})
}

// ---- spec level: path keys are compared for duplicates modulo the equivalence

type dupCase struct {
	Plain   string `json:"plain"`   // canonical template
	Respelt string `json:"respelt"` // equivalent spelling
	Other   string `json:"other"`   // a template that is NOT equivalent (control)
}

func specWithPaths(paths ...string) string {
	var b strings.Builder
	b.WriteString(`{"openapi":"3.0.3","info":{"title":"t","version":"1"},"paths":{`)
	for i, p := range paths {
		if i > 0 {
			b.WriteByte(',')
		}
		// declare every {name} as a path parameter
		var params []string
		for _, seg := range strings.Split(p, "{")[1:] {
			if j := strings.IndexByte(seg, '}'); j >= 0 {
				params = append(params, fmt.Sprintf(`{"name":%q,"in":"path","required":true,"schema":{"type":"string"}}`, seg[:j]))
			}
		}
		fmt.Fprintf(&b, `%q:{"get":{"operationId":"op%d","parameters":[%s],"responses":{"200":{"description":"ok"}}}}`, p, i, strings.Join(params, ","))
	}
	b.WriteString(`}}`)
	return b.String()
}

func parseSpec(doc string) (err error) {
	spec, err := ogen.Parse([]byte(doc))
	if err != nil {
		return err
	}
	_, err = parser.Parse(spec, parser.Settings{})
	return err
}

func respell(t *rapid.T, s string) string {
	var b strings.Builder
	inParam := false
	for i := 0; i < len(s); i++ {
		c := s[i]
		switch {
		case c == '{':
			inParam = true
			b.WriteByte(c)
		case c == '}':
			inParam = false
			b.WriteByte(c)
		case inParam:
			b.WriteByte(c)
		case c == '%' && i+2 < len(s):
			// flip hex case at random
			b.WriteByte('%')
			for _, h := range []byte{s[i+1], s[i+2]} {
				if rapid.Bool().Draw(t, "lower") {
					h = strings.ToLower(string(h))[0]
				}
				b.WriteByte(h)
			}
			i += 2
		case unreserved(c) && rapid.IntRange(0, 2).Draw(t, "escape") == 0:
			h := fmt.Sprintf("%%%02X", c)
			if rapid.Bool().Draw(t, "lower") {
				h = strings.ToLower(h)
			}
			b.WriteString(h)
		default:
			b.WriteByte(c)
		}
	}
	return b.String()
}

func drawDup(t *rapid.T) dupCase {
	nseg := rapid.IntRange(1, 3).Draw(t, "nseg")
	var plain strings.Builder
	pi := 0
	for i := 0; i < nseg; i++ {
		plain.WriteByte('/')
		switch rapid.IntRange(0, 5).Draw(t, "seg") {
		case 5:
			// an escaped RESERVED character: the raw character is a different path (RFC 3986 6.2.2.2
			// only un-escapes unreserved characters), see reservedPairs below
			pr := rapid.SampledFrom(reservedPairs).Draw(t, "reserved")
			plain.WriteString(rapid.SampledFrom([]string{"", "pay", "a"}).Draw(t, "pre") + pr[0] + rapid.SampledFrom([]string{"", "b", "1"}).Draw(t, "post"))
		case 0:
			fmt.Fprintf(&plain, "{p%d}", pi)
			pi++
		case 1:
			plain.WriteString(rapid.SampledFrom([]string{"a", "user", "x-y", "a.b", "v1", "~t", "A_b"}).Draw(t, "st"))
			fmt.Fprintf(&plain, "{p%d}", pi)
			pi++
		case 2:
			plain.WriteString(rapid.SampledFrom([]string{"a", "b", "users", "x-y", "a.b", "v1", "~t", "A_b", "z9"}).Draw(t, "st"))
		case 3:
			// static text that must stay escaped (canonical: upper-case hex)
			plain.WriteString(rapid.SampledFrom([]string{"a%2Fb", "%20", "x%3Ay", "%E4%B8%96", "q%3F", "%25"}).Draw(t, "esc"))
		case 4:
			plain.WriteString(rapid.StringMatching(`[a-c0-1._~-]{1,4}`).Draw(t, "rnd"))
		}
	}
	p := plain.String()
	r := respell(t, p)
	other := p + rapid.SampledFrom([]string{"x", "/x", "%2F", "0"}).Draw(t, "suffix")
	// a near miss instead of a longer key: one escaped reserved character written raw
	for _, pr := range reservedPairs {
		if strings.Contains(p, pr[0]) && rapid.Bool().Draw(t, "nearmiss") {
			other = strings.Replace(p, pr[0], pr[1], 1)
			break
		}
	}
	return dupCase{Plain: p, Respelt: r, Other: other}
}

func checkDup(c dupCase) *vk.Finding {
	return vk.Guard("spec-path-panic", func() *vk.Finding {
		// control: the plain template alone and with a non-equivalent sibling must parse
		if err := parseSpec(specWithPaths(c.Plain)); err != nil {
			return nil // template itself not accepted (e.g. "." segments): outside the domain, counted by caller
		}
		if err := parseSpec(specWithPaths(c.Respelt)); err != nil {
			return vk.F("spec-respelt-rejected", "template %q is accepted but its equivalent spelling %q is rejected: %v", c.Plain, c.Respelt, err)
		}
		if c.Respelt == c.Plain {
			return nil
		}
		err := parseSpec(specWithPaths(c.Plain, c.Respelt))
		if err == nil || !strings.Contains(err.Error(), "duplicate path") {
			return vk.F("spec-duplicate-missed", "path keys %q and %q are equivalent modulo escaping but the spec is not rejected as duplicate (err=%v)", c.Plain, c.Respelt, err)
		}
		if err := parseSpec(specWithPaths(c.Plain, c.Other)); err != nil && strings.Contains(err.Error(), "duplicate path") {
			return vk.F("spec-duplicate-spurious", "path keys %q and %q are different but reported as duplicate: %v", c.Plain, c.Other, err)
		}
		return nil
	})
}

// reservedPairs: escaped form and raw form of reserved characters that may appear raw in a path segment.
var reservedPairs = [][2]string{{"%24", "$"}, {"%26", "&"}, {"%2B", "+"}, {"%3D", "="}, {"%3A", ":"}, {"%40", "@"}, {"%2C", ","}, {"%3B", ";"}, {"%21", "!"}, {"%27", "'"}, {"%28", "("}, {"%29", ")"}, {"%2A", "*"}}

var regressDup = []dupCase{
	{Plain: "/pay%24", Respelt: "/p%61y%24", Other: "/pay$"},
	{Plain: "/a%3Ab/{p0}", Respelt: "/a%3ab/{p0}", Other: "/a:b/{p0}"},
	{Plain: "/x%40y", Respelt: "/%78%40y", Other: "/x@y"},
	{Plain: "/a", Respelt: "/%61", Other: "/ax"},
	{Plain: "/a%2Fb", Respelt: "/a%2fb", Other: "/a%2Fbx"},
	{Plain: "/a/{p0}", Respelt: "/%61/{p0}", Other: "/a/{p0}x"},
	{Plain: "/x-y{p0}", Respelt: "/x%2dy{p0}", Other: "/x-y{p0}/x"},
}

func TestSpecDuplicates(t *testing.T) {
	u := vk.New(t, "C12", "spec-duplicates")
	defer u.Close()
	vk.Rapid(u, vk.N(3000, 60000), regressDup, drawDup, func(c dupCase) *vk.Finding {
		if c.Respelt != c.Plain {
			u.NonTrivial(c.Plain + "\x00" + c.Respelt)
			u.Sample(c)
			u.Label("respelt-differs")
		} else {
			u.Label("respelt-identical")
		}
		return checkDup(c)
	})
}

// ---- request level: equivalent re-escapings reach the same operation -----------
//
// Servers are regenerated from /repo for route sets of the C05 generators; every
// served (or 405) request is re-sent in k equivalent spellings (unreserved bytes
// percent-escaped at random, hex digits of escapes in random case) and must give
// the same operation, arguments, status and FindPath result (internal/c05x/respell.go).

func TestRespell(t *testing.T) {
	u := vk.New(t, "C12", "respell-routesets")
	defer u.Close()
	if p := os.Getenv("VERIF_REPLAY"); p != "" {
		data, err := os.ReadFile(p)
		if err != nil {
			t.Fatal(err)
		}
		var doc struct {
			Unit string           `json:"unit"`
			Case c05x.RespellCase `json:"case"`
		}
		if err := json.Unmarshal(data, &doc); err != nil || doc.Unit != "respell" {
			return
		}
		c := doc.Case
		c05x.RunBatchAlts(u, "replay", [][]c05x.RouteSpec{c.Routes}, [][]c05x.Request{{{Method: c.Method, Raw: c.Canonical, SafeOf: -1}}}, []string{c.Respelt}, "replay", "VERIF_C05_MODE=respell")
		return
	}
	// a seed-selected slice of the bounded-exhaustive small family
	tpls := c05x.SmallTemplates()
	shard, shards := vk.Shard()
	stride := vk.N(400, 40)
	seed := vk.Seed()
	var mine [][]c05x.RouteSpec
	c05x.EnumerateSets(tpls, func(idx int, set []string) {
		if (uint64(idx)+seed*7)%uint64(stride) != 0 || (idx/stride)%shards != shard {
			return
		}
		mine = append(mine, c05x.WithMethods(set, seed))
	})
	for i := 0; i < len(mine); i += c05x.BatchSize {
		j := i + c05x.BatchSize
		if j > len(mine) {
			j = len(mine)
		}
		c05x.RunBatch(u, "small", mine[i:j], nil, "small", "VERIF_C05_MODE=respell")
	}
	// random larger sets
	n := 0
	vk.Rapid(u, vk.N(2, 64), nil, c05x.DrawRandomBatch, func(rb c05x.RandomBatch) *vk.Finding {
		n++
		return c05x.RunBatch(u, fmt.Sprintf("rnd%d", n), rb.Sets, nil, "random", "VERIF_C05_LARGE=1", "VERIF_C05_MODE=respell")
	})
}

// ---- native fuzz targets (campaigns in the thorough tier, see internal/vk/fuzz.go) ----

// FuzzNormalize: the fuzzer's string against the token-wise reference and the
// independent clauses (octets, canonical form, idempotence, no panic).
func FuzzNormalize(f *testing.F) {
	known := vk.FuzzStart(f)
	for _, c := range regressNormalize {
		f.Add(c.S)
	}
	f.Fuzz(func(t *testing.T, s string) {
		vk.FuzzVerdict(t, known, checkNormalize(normCase{s}))
	})
}

// FuzzNormalizePieces: the piece generator of unit normalize-random driven by the fuzzer.
func FuzzNormalizePieces(f *testing.F) {
	vk.FuzzRapid(f, drawNormalize, checkNormalize)
}
