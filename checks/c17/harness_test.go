package c17

import (
	"bytes"
	"crypto/sha256"
	"fmt"
	"net/url"
	"os"
	"path"
	"path/filepath"
	"regexp"
	"runtime/debug"
	"sort"
	"strconv"
	"strings"
	"sync"
	"testing"

	"github.com/ogen-go/ogen"
	"github.com/ogen-go/ogen/gen"
	"github.com/ogen-go/ogen/gen/ir"
	"github.com/ogen-go/ogen/location"

	"verif/internal/doctree"
)

// TestMain moves the process into a scratch directory: when a generated file
// does not format, ogen drops "<file>.dump" into the current directory.
func TestMain(m *testing.M) {
	dir, err := os.MkdirTemp(os.Getenv("VERIF_SCRATCH"), "c17-wd-")
	if err == nil {
		if os.Chdir(dir) != nil {
			dir = ""
		}
	}
	code := m.Run()
	if dir != "" {
		_ = os.Chdir(os.TempDir())
		_ = os.RemoveAll(dir)
	}
	os.Exit(code)
}

// scaled applies C17_SCALE (percent, development aid; unset = 100).
func scaled(n int) int {
	if v, err := strconv.Atoi(os.Getenv("C17_SCALE")); err == nil && v > 0 {
		n = n * v / 100
		if n < 1 {
			n = 1
		}
	}
	return n
}

func repoDir() string {
	if d := os.Getenv("VERIF_REPO"); d != "" {
		return d
	}
	return "/repo"
}

// ---- running ogen in-process ------------------------------------------------------

// recFS records what the generator writes (gen.FileSystem). WriteSource calls
// it from several goroutines.
type recFS struct {
	mu    sync.Mutex
	files map[string][]byte
	dup   []string
}

func (f *recFS) WriteFile(name string, content []byte) error {
	f.mu.Lock()
	defer f.mu.Unlock()
	if f.files == nil {
		f.files = map[string][]byte{}
	}
	if _, ok := f.files[name]; ok {
		f.dup = append(f.dup, name)
	}
	f.files[name] = append([]byte(nil), content...)
	return nil
}

// outcome of one generation.
type outcome struct {
	OK     bool
	Stage  string // parse | generate | write | panic (when !OK)
	Err    string // error text with position / file-name tokens replaced
	RawErr string
	Names  []string
	Sums   map[string][32]byte
	Files  map[string][]byte // kept only when asked for
}

// specFileName is the location.File name handed to ogen for every spelling, so
// that the only spelling-dependent parts of a diagnostic are line/column.
const specFileName = "spec.doc"

var (
	// location.Position.String(): "<line>:<col>" or "<line>", prefixed by
	// "<file>:" (Position.WithFilename) and introduced by "at " (location.Error,
	// location.Report).
	rePosAt = regexp.MustCompile(`\bat (?:` + regexp.QuoteMeta(specFileName) + `:)?\d+(?::\d+)?`)
	// go-faster/yaml syntax and unmarshal errors: "line 12:" / "line 12:3:"
	reLine = regexp.MustCompile(`\bline \d+(?::\d+)?`)
	// a bare "<file>:<line>:<col>" (pointer strings)
	reFilePos = regexp.MustCompile(regexp.QuoteMeta(specFileName) + `:\d+(?::\d+)?`)
)

func normErr(s string) string {
	s = rePosAt.ReplaceAllString(s, "at <pos>")
	s = reFilePos.ReplaceAllString(s, "<pos>")
	s = reLine.ReplaceAllString(s, "line <n>")
	return s
}

// profile: generator options that belong to a corpus file (as in ogen's own
// gen_test.go), identical for every spelling of that file.
type profile struct {
	ConvenientErrors bool
	Aliases          map[string]ir.Encoding
	RemoteRoot       string // directory (on disk) that relative external references resolve against
	RootName         string
	Strict           bool // no ignore-not-implemented (as ogen's TestNegative)
}

var allFeatures = func() gen.FeatureSet {
	s := gen.FeatureSet{}
	for _, f := range gen.AllFeatures {
		s[f.Name] = struct{}{}
	}
	return s
}()

func runOgen(data []byte, p profile, keep bool) (out outcome) {
	defer func() {
		if r := recover(); r != nil {
			st := string(debug.Stack())
			if len(st) > 1200 {
				st = st[:1200]
			}
			out = outcome{Stage: "panic", RawErr: fmt.Sprintf("panic: %v\n%s", r, st), Err: fmt.Sprintf("panic: %v", r)}
		}
	}()
	spec, err := ogen.Parse(data)
	if err != nil {
		return outcome{Stage: "parse", RawErr: err.Error(), Err: normErr(err.Error())}
	}
	opt := gen.Options{
		Parser: gen.ParseOptions{
			InferSchemaType: true,
			File:            location.NewFile(specFileName, specFileName, data),
		},
		Generator: gen.GenerateOptions{
			Features:             &gen.FeatureOptions{Enable: allFeatures},
			IgnoreNotImplemented: []string{"all"},
			ContentTypeAliases:   p.Aliases,
		},
	}
	if p.Strict {
		opt.Generator.IgnoreNotImplemented = nil
	}
	if p.ConvenientErrors {
		if err := opt.Generator.ConvenientErrors.Set("on"); err != nil {
			panic(err)
		}
	}
	if p.RemoteRoot != "" {
		opt.Parser.AllowRemote = true
		opt.Parser.RootURL = &url.URL{Scheme: "file", Path: "/" + p.RootName}
		root := p.RemoteRoot
		opt.Parser.Remote = gen.RemoteOptions{
			ReadFile: func(name string) ([]byte, error) {
				return os.ReadFile(filepath.Join(root, filepath.FromSlash(path.Clean("/"+name))))
			},
			URLToFilePath: func(u *url.URL) (string, error) {
				if u.Path == "" {
					return u.Opaque, nil
				}
				return u.Path, nil
			},
		}
	}
	g, err := gen.NewGenerator(spec, opt)
	if err != nil {
		return outcome{Stage: "generate", RawErr: err.Error(), Err: normErr(err.Error())}
	}
	fs := &recFS{}
	if err := g.WriteSource(fs, "api"); err != nil {
		return outcome{Stage: "write", RawErr: err.Error(), Err: normErr(err.Error())}
	}
	out = outcome{OK: true, Sums: map[string][32]byte{}}
	for name, b := range fs.files {
		out.Names = append(out.Names, name)
		out.Sums[name] = sha256.Sum256(b)
	}
	sort.Strings(out.Names)
	if keep {
		out.Files = fs.files
	}
	return out
}

// sameOutcome compares two outcomes; "" when they agree.
func sameOutcome(a, b outcome) string {
	switch {
	case a.OK && b.OK:
		if strings.Join(a.Names, ",") != strings.Join(b.Names, ",") {
			return fmt.Sprintf("file sets differ: %v vs %v", a.Names, b.Names)
		}
		for _, n := range a.Names {
			if a.Sums[n] != b.Sums[n] {
				return "content of " + n + " differs"
			}
		}
		return ""
	case a.OK != b.OK:
		if a.OK {
			return fmt.Sprintf("accepted vs rejected at %s: %s", b.Stage, clipStr(b.Err, 400))
		}
		return fmt.Sprintf("rejected at %s (%s) vs accepted", a.Stage, clipStr(a.Err, 400))
	default:
		if a.Stage != b.Stage || a.Err != b.Err {
			return fmt.Sprintf("diagnostics differ: [%s] %s  vs  [%s] %s", a.Stage, clipStr(a.Err, 400), b.Stage, clipStr(b.Err, 400))
		}
		return ""
	}
}

func clipStr(s string, n int) string {
	if len(s) > n {
		return s[:n] + "…"
	}
	return s
}

// firstDiff describes where two generated files start to differ.
func firstDiff(a, b []byte) string {
	la := bytes.Split(a, []byte("\n"))
	lb := bytes.Split(b, []byte("\n"))
	for i := 0; i < len(la) && i < len(lb); i++ {
		if !bytes.Equal(la[i], lb[i]) {
			return fmt.Sprintf("line %d: %q vs %q", i+1, clipStr(string(la[i]), 160), clipStr(string(lb[i]), 160))
		}
	}
	return fmt.Sprintf("length %d vs %d lines", len(la), len(lb))
}

// errSet runs the same text n times and returns the set of distinct outcomes'
// diagnostics (map-order dependent message selection shows up as >1 element).
func errSet(data []byte, p profile, n int) []string {
	set := map[string]bool{}
	for i := 0; i < n; i++ {
		o := runOgen(data, p, false)
		if o.OK {
			set["<accepted>"] = true
		} else {
			set["["+o.Stage+"] "+o.Err] = true
		}
	}
	var out []string
	for k := range set {
		out = append(out, k)
	}
	sort.Strings(out)
	return out
}

// ---- what makes a spec interesting for the non-triviality rule -------------------------

// sensitiveKeywords counts members named enum/default/example/const and members
// whose value is a number (minimum, maximum, multipleOf, …).
func sensitiveKeywords(t *doctree.Node) int {
	n := 0
	t.Walk(func(p []string, x *doctree.Node) {
		if x.Kind != doctree.Obj {
			return
		}
		for i, k := range x.K {
			switch k {
			case "enum", "default", "example", "const":
				n++
			default:
				if x.V[i].Kind == doctree.Num {
					n++
				}
			}
		}
	})
	return n
}
