package c17

import (
	"fmt"
	"os"
	"testing"

	"verif/internal/doctree"
)

func TestDbg(t *testing.T) {
	if os.Getenv("C17_PROBE") == "" {
		t.Skip()
	}
	for _, c := range sensRegress() {
		if c.SC.Fam != famMerge {
			continue
		}
		tree := buildSens(c)
		text, used := doctree.Emit(tree, c.SC.Style)
		_ = used
		o := runOgen(text, profile{}, false)
		b := runOgen(doctree.CompactJSON(tree), profile{}, false)
		fmt.Println("SAME?", sameOutcome(b, o), "| base:", b.OK, b.Stage, b.Err, "| got:", o.OK, o.Stage, o.Err)
	}
}
