package c17

import (
	"fmt"
	"os"
	"testing"

	"verif/internal/doctree"
)

func TestDbg(t *testing.T) {
	if os.Getenv("C17_PROBE") == "" {
		t.Skip()
	}
	for _, c := range sensRegress() {
		if c.Layout != 1<<23|1<<24 {
			continue
		}
		tree := buildSens(c)
		s := newSubject("x", tree, profile{})
		text, used := doctree.Emit(tree, c.SC.Style)
		o := runOgen(text, profile{}, false)
		fmt.Println(string(text))
		fmt.Println(c.SC.Fam, "aliases", used.Aliases, "merges", used.Merges, "base", s.baseline().OK, s.baseline().Err, "->", describeMismatch(s, text, s.baseline(), o))
	}
}
