package c17

import (
	"fmt"
	"os"
	"strconv"
	"strings"
	"testing"
	"time"

	"pgregory.net/rapid"

	"verif/internal/doctree"
	"verif/internal/vk"
)

// Strings whose plain YAML spelling would change their type under some YAML
// version, or that need quoting for syntactic reasons.
var sensitiveStrings = []string{
	"yes", "no", "on", "off", "y", "n", "Yes", "NO", "On", "OFF", "~", "null", "Null", "true", "True", "FALSE",
	"0x1F", "0o17", "0b101", "1e3", "12:30", "1:00:00", ".inf", "-.INF", ".nan", ".NaN", "1_000", "007", "0", "-0", "+1", "1.0", ".5", "1.",
	"123456789012345678901234567890", "2001-01-01", "2001-12-14T21:59:43Z", "2001-12-14 21:59:43.10 -5", "",
	"a: b", "a #b", "- a", "*a", "&a", "!t", "%d", "@x", "`b`", "'q'", "\"dq\"", "it's", "line1\nline2", "line1\nline2\n", "tab\there", "\ttab",
	"üñí", "日本語", "smile 😀", "trail ", " lead", "{a}", "[a]", "a,b", "#hash", "?", "|", ">", "-", "--- ", "---", "...", "a:", ":a", "\\n", "C:\\path",
	"null ", "<<", "=", "a\u0085b", "a\u2028b", "nb\u00a0sp", "del\x7f", "bom\ufeff", "\u0000nul", "cr\rlf", "q?x", "http://x/y#z", "key: [1, 2]",
	"multi\n\nline", "  two", "x  #  y", "a\\", "\"", "'", "''", "\\", "%YAML 1.1", "! bang", "& amp", "* star", "a*b", "1 apple", "3rd", "v1.0.0", "$ref",
}

// JSON number spellings (all within float64 range: a number that overflows is
// not a number for yaml.v3-lineage resolvers and would fail the precondition).
var sensitiveNumbers = []string{
	"0", "1", "-1", "1.0", "1e2", "-0", "1E+2", "12345678901234567890", "-12345678901234567890", "0.5", "1.5e-3", "100", "1.50", "2.0e0", "0.0", "-0.0",
	"1e0", "9007199254740993", "0e0", "123456789012345678901234567890", "1E2", "1e+2", "1e-2", "10", "3.14159265358979323846", "0.1", "1e10", "4294967296", "2147483648",
	"9223372036854775807", "9223372036854775808", "18446744073709551615", "18446744073709551616", "-9223372036854775808", "5e-324", "1.7976931348623157e308",
}

type sensCase struct {
	Strs   []string  `json:"strs"`
	Nums   []string  `json:"nums"`
	Layout uint32    `json:"layout"`
	SC     styleCase `json:"spelling"`
}

func (c sensCase) bit(i int) bool { return c.Layout>>uint(i)&1 == 1 }

func str(s string) *doctree.Node { return doctree.NewStr(s) }
func num(s string) *doctree.Node { return doctree.NewNum(s) }
func obj() *doctree.Node         { return doctree.NewObj() }

// buildSens makes a small OpenAPI document in which the case's strings sit
// under enum / default / example / const / x-extension values, property and
// parameter names, and its numbers under minimum / maximum / multipleOf /
// default / enum.
func buildSens(c sensCase) *doctree.Node {
	S := func(i int) string { return c.Strs[i%len(c.Strs)] }
	N := func(i int) string { return c.Nums[i%len(c.Nums)] }
	hostileNums := c.bit(21) // numbers ogen rejects for every spelling are allowed in value positions
	isInteger := c.bit(3)
	// V: a number for enum / default / example / const positions
	V := func(i int) string {
		n := N(i)
		if hostileNums || valueNumberOK(n, isInteger) {
			return n
		}
		for _, m := range c.Nums {
			if valueNumberOK(m, isInteger) {
				return m
			}
		}
		return "7"
	}
	var enumVals []*doctree.Node
	seen := map[string]bool{}
	for _, s := range c.Strs {
		if !seen[s] {
			seen[s] = true
			enumVals = append(enumVals, str(s))
		}
	}
	strEnum := func() *doctree.Node {
		cp := make([]*doctree.Node, len(enumVals))
		for i, x := range enumVals {
			cp[i] = x.Clone()
		}
		o := obj().Set("type", str("string")).Set("enum", doctree.NewArr(cp...))
		if c.bit(0) {
			o.Set("default", str(S(0)))
		}
		return o
	}
	numType := "number"
	if c.bit(3) {
		numType = "integer"
	}
	numSchema := obj().Set("type", str(numType))
	if c.bit(10) {
		numSchema.Set("format", str([]string{"int64", "double", "float", "int32"}[int(c.Layout>>20)%4]))
	}
	if c.bit(11) {
		numSchema.Set("minimum", num(N(0)))
	}
	if c.bit(12) {
		numSchema.Set("maximum", num(N(1)))
	}
	if c.bit(13) {
		m := N(2)
		if !hostileNums && !positiveNumber(m) {
			m = "2"
		}
		numSchema.Set("multipleOf", num(m))
	}
	if c.bit(14) {
		numSchema.Set("default", num(V(3)))
	}
	if c.bit(4) {
		var vals []*doctree.Node
		ns := map[string]bool{}
		for i := range c.Nums {
			n := V(i)
			if !ns[n] {
				ns[n] = true
				vals = append(vals, num(n))
			}
		}
		numSchema.Set("enum", doctree.NewArr(vals...))
	}
	if c.bit(7) {
		numSchema.Set("const", num(V(0)))
	}
	if c.bit(15) {
		numSchema.Set("example", num(V(1)))
	}

	props := obj()
	required := doctree.NewArr()
	pname := func(i int, fallback string) string {
		if c.bit(1) {
			return nameable(S(i), c.bit(22))
		}
		return fallback
	}
	used := map[string]bool{}
	addProp := func(name string, sch *doctree.Node) {
		if used[name] {
			name = fmt.Sprintf("%s_%d", name, len(used))
		}
		used[name] = true
		props.Set(name, sch)
	}
	addProp(pname(0, "kind"), strEnum())
	addProp(pname(1, "text"), func() *doctree.Node {
		o := obj().Set("type", str("string")).Set("default", str(S(1))).Set("example", str(S(2))).Set("description", str(S(3)))
		if c.bit(2) {
			o.Set("x-oapi-codegen-extra-tags", obj().Set("tag", str(S(0))).Set("other", str(S(1))))
		}
		if c.bit(7) {
			o.Set("const", str(S(0)))
		}
		return o
	}())
	addProp("amount", numSchema)
	addProp(pname(2, "kind2"), strEnum()) // a repeated subtree (alias candidate)
	if c.bit(6) {
		addProp("free", obj().Set("type", str("object")).Set("default", obj().
			Set("list", doctree.NewArr(str(S(0)), num(V(0)), doctree.NewNull(), doctree.NewBool(true), str(S(1)))).
			Set(S(2), str(S(3))).
			Set("nothing", doctree.NewNull()).
			Set("n", num(V(1)))).
			Set("x-custom", doctree.NewArr(str(S(0)), obj().Set(S(1), str(S(2))))))
	}
	if c.bit(8) {
		addProp("opt", obj().Set("type", str("string")).Set("nullable", doctree.NewBool(true)).Set("default", doctree.NewNull()))
	}
	if c.bit(9) {
		addProp("when", obj().Set("type", str("string")).Set("format", str("date")).Set("x-ogen-time-format", str("2006-01-02")).Set("default", str("2001-02-03")).Set("example", str("2001-02-03")))
	}
	if c.bit(16) {
		required.A = append(required.A, str(props.K[0]))
	}
	objSchema := obj().Set("type", str("object")).Set("description", str(S(2)))
	if len(required.A) > 0 {
		objSchema.Set("required", required)
	}
	objSchema.Set("properties", props)
	objSchema.Set("x-note", str(S(1)))

	// a second schema that starts with the same members (merge-key candidate)
	obj2 := obj().Set("type", str("object")).Set("description", str(S(2)))
	obj2.Set("properties", obj().Set("id", obj().Set("type", str("string"))).Set("kind", strEnum()))
	obj3 := obj().Set("type", str("object")).Set("description", str(S(2)))
	obj3.Set("properties", obj().Set("id", obj().Set("type", str("string"))).Set("kind", strEnum()).Set("more", obj().Set("type", str("integer"))))
	// bits 26-28: the extensions ogen itself reads, written identically in two places so that the alias
	// and merge-key spellings reach them (`x-ogen-properties: *a`), next to scalar-valued ones
	if c.bit(26) {
		xp := func() *doctree.Node {
			return obj().Set("id", obj().Set("name", str("UUID"))).Set("kind", obj().Set("name", str("KindOf")))
		}
		obj2.Set("x-ogen-properties", xp())
		obj3.Set("x-ogen-properties", xp())
	}
	if c.bit(27) {
		tags := func() *doctree.Node { return obj().Set("db", str("col")).Set("validate", str("required,min=1")) }
		obj2.Get("properties").Get("id").Set("x-oapi-codegen-extra-tags", tags())
		obj3.Get("properties").Get("id").Set("x-oapi-codegen-extra-tags", tags())
		obj3.Get("properties").Get("more").Set("x-oapi-codegen-extra-tags", tags())
	}
	if c.bit(28) {
		obj3.Set("x-ogen-name", str("RenamedThird"))
	}
	// Twin is written before Obj2 and is identical to it, so with aliasing on Obj2
	// becomes "*a"; Deep points INTO Obj2 with a JSON pointer.
	twin := obj2.Clone()
	deep := obj().Set("type", str("object")).Set("properties", obj().
		Set("viaRef", obj().Set("$ref", str("#/components/schemas/Obj2/properties/id"))).
		Set("viaRef2", obj().Set("$ref", str("#/components/schemas/Obj3/properties/more"))))
	small := obj().Set("type", str("string"))
	small2 := obj().Set("type", str("string")).Set("description", str(S(0)))

	params := doctree.NewArr()
	qname := "q"
	if c.bit(5) {
		qname = nameable(S(0), c.bit(22))
	}
	q := obj().Set("name", str(qname)).Set("in", str("query")).Set("schema", strEnum())
	if c.bit(17) {
		q.Set("example", str(S(1)))
	}
	params.A = append(params.A, q)
	params.A = append(params.A, obj().Set("name", str("lim")).Set("in", str("query")).Set("schema", numSchema.Clone()))

	media := obj().Set("schema", obj().Set("$ref", str("#/components/schemas/Obj")))
	if c.bit(18) {
		media.Set("example", obj().Set(props.K[0], str(S(0))).Set("amount", num(N(0))))
	}
	if c.bit(19) {
		media.Set("examples", obj().Set(S(0)+"x", obj().Set("summary", str(S(1))).Set("value", obj().Set(props.K[0], str(S(0))).Set("amount", num(N(1))))))
	}
	op := obj().Set("operationId", str("getThing")).Set("description", str(S(3))).Set("parameters", params).
		Set("responses", obj().Set("200", obj().Set("description", str(S(0))).Set("content", obj().Set("application/json", media))))
	simpleOp := func(id, ref string) *doctree.Node {
		return obj().Set("get", obj().Set("operationId", str(id)).Set("responses", obj().Set("200", obj().Set("description", str("ok")).
			Set("content", obj().Set("application/json", obj().Set("schema", obj().Set("$ref", str("#/components/schemas/"+ref))))))))
	}
	// bit 25: a list whose element repeats an earlier subtree (with aliasing on it is written "- *a") and
	// a local reference that walks THROUGH that list element and on below it
	// (a plain integer schema: the numeric schema of the sensitive values may be invalid on purpose, and a
	// second component that reaches an invalid schema makes WHICH error ogen reports depend on Go map order)
	limParam := obj().Set("name", str("lim2")).Set("in", str("query")).Set("schema", obj().Set("type", str("integer")).Set("description", str("through a list")))
	if c.bit(25) {
		params.A = append(params.A, limParam.Clone())
	}
	viaList := obj().Set("type", str("object")).Set("properties", obj().
		Set("n", obj().Set("$ref", str("#/paths/~1thing4/get/parameters/0/schema"))))
	thing4 := obj().Set("get", obj().Set("operationId", str("getThing4")).Set("parameters", doctree.NewArr(limParam)).
		Set("responses", obj().Set("200", obj().Set("description", str("ok")).
			Set("content", obj().Set("application/json", obj().Set("schema", obj().Set("$ref", str("#/components/schemas/ViaList"))))))))
	root := obj().
		Set("openapi", str("3.0.3")).
		Set("info", obj().Set("title", str(S(0))).Set("version", str("1.0.0")).Set("description", str(S(1))).Set("x-info", str(S(2)))).
		Set("paths", obj().Set("/thing", obj().Set("get", op)).Set("/thing2", simpleOp("getThing2", "Obj2")).Set("/thing3", simpleOp("getThing3", "Obj3")).Set("/small2", simpleOp("getSmall2", "Small2")).Set("/deep", simpleOp("getDeep", func() string {
			if c.bit(24) {
				return "Deep"
			}
			return "Small"
		}()))).
		Set("components", obj().Set("schemas", func() *doctree.Node {
			m := obj().Set("Small", small).Set("Obj", objSchema).Set("Small2", small2)
			if c.bit(23) {
				m.Set("Twin", twin)
			}
			m.Set("Obj2", obj2).Set("Obj3", obj3)
			if c.bit(24) {
				m.Set("Deep", deep)
			}
			if c.bit(25) {
				m.Set("ViaList", viaList)
			}
			return m
		}()))
	if c.bit(25) {
		root.Get("paths").Set("/thing4", thing4)
	}
	return root
}

// valueNumberOK: ogen parses enum/default numbers with jx (integers must fit
// int64; an integer schema wants integer texts).
func valueNumberOK(n string, integer bool) bool {
	pure := !strings.ContainsAny(n, ".eE")
	if pure {
		_, err := strconv.ParseInt(n, 10, 64)
		return err == nil
	}
	return !integer
}

func positiveNumber(n string) bool {
	if strings.HasPrefix(n, "-") {
		return false
	}
	mant := n
	if i := strings.IndexAny(n, "eE"); i >= 0 {
		mant = n[:i]
	}
	return strings.ContainsAny(mant, "123456789")
}

// nameable: ogen derives Go identifiers from property / parameter names and
// rejects names without any letter or digit; unless raw, such names get a prefix.
func nameable(s string, raw bool) string {
	if raw {
		return s
	}
	for _, r := range s {
		if r < 0x80 && (asciiAlnum(byte(r))) {
			return s
		}
	}
	return "p" + s
}

func asciiAlnum(c byte) bool {
	return c >= 'a' && c <= 'z' || c >= 'A' && c <= 'Z' || c >= '0' && c <= '9'
}

func drawSens(t *rapid.T, fams []string) sensCase {
	var c sensCase
	ns := rapid.IntRange(1, 5).Draw(t, "nstr")
	for i := 0; i < ns; i++ {
		switch rapid.IntRange(0, 9).Draw(t, "strkind") {
		case 0:
			c.Strs = append(c.Strs, rapid.StringN(0, 12, 40).Draw(t, "rnd"))
		case 1:
			c.Strs = append(c.Strs, rapid.StringMatching(`[ -~]{0,10}`).Draw(t, "ascii"))
		case 2:
			// a sensitive word in a context (prefix/suffix) or case variant
			w := rapid.SampledFrom(sensitiveStrings).Draw(t, "w")
			c.Strs = append(c.Strs, rapid.SampledFrom([]string{"", " ", "x", "-", "#", ": "}).Draw(t, "pre")+w+rapid.SampledFrom([]string{"", " ", ":", " #", "\n"}).Draw(t, "suf"))
		default:
			c.Strs = append(c.Strs, rapid.SampledFrom(sensitiveStrings).Draw(t, "s"))
		}
	}
	nn := rapid.IntRange(1, 4).Draw(t, "nnum")
	for i := 0; i < nn; i++ {
		if rapid.IntRange(0, 4).Draw(t, "numkind") == 0 {
			// random JSON number text within float64 range
			s := rapid.StringMatching(`-?(0|[1-9][0-9]{0,20})(\.[0-9]{1,6})?([eE][+-]?[0-9]{1,2})?`).Draw(t, "num")
			c.Nums = append(c.Nums, s)
		} else {
			c.Nums = append(c.Nums, rapid.SampledFrom(sensitiveNumbers).Draw(t, "n"))
		}
	}
	c.Layout = rapid.Uint32().Draw(t, "layout")
	c.SC = drawStyle(t, fams)
	return c
}

// hostile constants: the shapes the code reading pointed at.
func sensRegress() []sensCase {
	block := doctree.Style{Class: "yaml-block", Indent: 2, PlainPM: 1000, KeyPlainPM: 1000}
	y11 := block
	y11.YAML11PM = 1000
	date := block
	date.DatePM = 1000
	flow := doctree.Style{Class: "yaml-flow", PlainPM: 1000, KeyPlainPM: 1000, SinglePM: 1000}
	aliasRaw := doctree.Style{Class: "yaml-block", Indent: 2, AliasPM: 1000, ScalarAliasPM: 1000, Seed: 3, ProtectRefPaths: true}
	aliasMain := aliasRaw
	aliasMain.NoAliasUnder = rawValueKeys
	aliasRef := aliasMain
	aliasRef.ProtectRefPaths = false
	merge := doctree.Style{Class: "yaml-block", Indent: 2, MergePM: 1000, Seed: 1, ProtectRefPaths: true, NoAliasUnder: rawValueKeys}
	sur := doctree.Style{Class: "json-compact", JSONSurrogatePM: 1000, JSONEscapePM: 300}
	all := uint32(0xffffffff) &^ (1 << 1) &^ (1 << 5)
	return []sensCase{
		{Strs: []string{"on", "off"}, Nums: []string{"1"}, Layout: 1, SC: styleCase{famMain, block}},
		{Strs: []string{"on", "off"}, Nums: []string{"1"}, Layout: 1, SC: styleCase{famYAML11, y11}},
		{Strs: []string{"yes", "no", "y", "n"}, Nums: []string{"1.0", "1e2"}, Layout: all, SC: styleCase{famYAML11, y11}},
		{Strs: []string{"12:30", "="}, Nums: []string{"1"}, Layout: all, SC: styleCase{famYAML11, y11}},
		{Strs: []string{"on", "b"}, Nums: []string{"1"}, Layout: all | 1<<1 | 1<<5, SC: styleCase{famYAML11, y11}},
		{Strs: []string{"2001-01-01", "2002-02-02"}, Nums: []string{"1"}, Layout: all, SC: styleCase{famDate, date}},
		{Strs: []string{"a", "b", "c"}, Nums: []string{"1", "2"}, Layout: all, SC: styleCase{famAliasRaw, aliasRaw}},
		{Strs: []string{"a", "b", "c"}, Nums: []string{"1", "2"}, Layout: all, SC: styleCase{famMain, aliasMain}},
		{Strs: []string{"a", "b"}, Nums: []string{"1"}, Layout: 1<<23 | 1<<24, SC: styleCase{famMain, aliasMain}},
		{Strs: []string{"a", "b"}, Nums: []string{"1"}, Layout: 1<<23 | 1<<24, SC: styleCase{famAliasRef, aliasRef}},
		{Strs: []string{"a", "b"}, Nums: []string{"1"}, Layout: 1<<23 | 1<<24, SC: styleCase{famMerge, merge}},
		{Strs: []string{"a", "b"}, Nums: []string{"1"}, Layout: 1<<23 | 1<<24 | 1<<25, SC: styleCase{famAliasRef, aliasRef}},
		{Strs: []string{"a", "b"}, Nums: []string{"1"}, Layout: 1<<25, SC: styleCase{famAliasRef, aliasRef}},
		{Strs: []string{"a", "b"}, Nums: []string{"1"}, Layout: 1<<25, SC: styleCase{famMain, aliasMain}},
		{Strs: []string{"a", "b", "c"}, Nums: []string{"1", "2"}, Layout: all, SC: styleCase{famMerge, merge}},
		{Strs: []string{"smile 😀", "b"}, Nums: []string{"1"}, Layout: all, SC: styleCase{famMain, sur}},
		{Strs: []string{"~", "null", "true", "0x1F", "1e3"}, Nums: []string{"1.0", "1e2", "-0", "1E+2"}, Layout: all, SC: styleCase{famMain, flow}},
		{Strs: []string{".inf", ".nan", "1_000", "007", "123456789012345678901234567890"}, Nums: []string{"12345678901234567890", "0.5"}, Layout: all, SC: styleCase{famMain, block}},
		{Strs: []string{"", "a: b", "a #b", "- a", "*a"}, Nums: []string{"1"}, Layout: all | 1<<1, SC: styleCase{famMain, block}},
		{Strs: []string{"&a", "!t", "%d", "@x", "`b`"}, Nums: []string{"1"}, Layout: all | 1<<1, SC: styleCase{famMain, flow}},
		{Strs: []string{"line1\nline2\n", "x\ny", "multi\n\nline\n"}, Nums: []string{"1"}, Layout: all, SC: styleCase{famMain, doctree.Style{Class: "yaml-block", Indent: 2, LiteralPM: 1000}}},
		{Strs: []string{"line1\nline2", "tab\there", "üñí", "trail ", "a\u0085b"}, Nums: []string{"1"}, Layout: all, SC: styleCase{famMain, doctree.Style{Class: "yaml-block", Indent: 3, LiteralPM: 1000, PlainPM: 1000, SinglePM: 500}}},
	}
}

func TestSensitive(t *testing.T) {
	u := vk.New(t, "C17", "sensitive")
	defer u.Close()
	herr := &harnessErrors{}
	defer func() {
		for _, m := range herr.msgs {
			u.Note("HARNESS: %s", clipStr(m, 7000))
		}
		if len(herr.msgs) > 0 {
			t.Errorf("harness: %d spelling(s) did not read back as the source tree (emitter bug, not a finding); first: %s", len(herr.msgs), clipStr(herr.msgs[0], 1500))
		}
	}()
	fams := []string{famMain, famMain, famMain, famMain, famMain, famMain, famMain, famMain, famYAML11, famYAML11, famDate, famAliasRaw, famAliasRef, famMerge}
	check := func(c sensCase) *vk.Finding {
		if len(c.Strs) == 0 || len(c.Nums) == 0 {
			return nil
		}
		tree := buildSens(c)
		s := newSubject("sensitive", tree, profile{})
		t0 := time.Now()
		v := evaluate(s, c.SC, herr)
		if d := time.Since(t0); d > 400*time.Millisecond && os.Getenv("C17_DEBUG") != "" {
			fmt.Printf("SLOW %v strs=%q nums=%q layout=%x fam=%s base=%v/%s %s\n", d, c.Strs, c.Nums, c.Layout, c.SC.Fam, s.base.OK, s.base.Stage, clipStr(s.base.Err, 200))
		}
		record(u, s, c.SC, v)
		for _, x := range c.Strs {
			switch {
			case doctree.YAML11Only(x):
				u.Label("string:yaml11-only")
			case doctree.PlainSafe(x, false, false):
				u.Label("string:plain-safe")
			default:
				u.Label("string:must-quote")
			}
		}
		if v.NonTrivial {
			u.Sample(map[string]any{"strs": c.Strs, "nums": c.Nums, "class": c.SC.Style.Class, "fam": c.SC.Fam, "accepted": v.Accepted})
		}
		return v.Finding
	}
	var regress []sensCase
	if shard, _ := vk.Shard(); shard == 0 {
		regress = sensRegress()
	}
	vk.Rapid(u, scaled(vk.N(800, 15000)), regress, func(rt *rapid.T) sensCase { return drawSens(rt, fams) }, check)
}

var _ = strings.TrimSpace
