// Package c17 decides property C17: two spec documents that denote the same
// data (JSON vs YAML, block vs flow, indentation, comments, scalar quoting that
// keeps strings strings, aliases expanded or not) produce byte-identical
// generated code, and for invalid documents the same diagnostic up to positions.
//
// One ordered document tree (internal/doctree) is spelled in many ways by
// emitters that are independent of the YAML library ogen uses; every spelling
// is first read back with gopkg.in/yaml.v3 / encoding/json and must denote the
// source tree (precondition, not the oracle); then ogen runs in-process on the
// canonical compact-JSON spelling and on the re-spelling and the two outcomes
// (generated file names + bytes, or the diagnostic with positions stripped)
// must be the same.
package c17

import (
	"fmt"
	"hash/fnv"
	"os"
	"path/filepath"
	"sort"
	"strings"
	"sync"
	"testing"

	"pgregory.net/rapid"

	"github.com/ogen-go/ogen/gen/ir"

	"verif/internal/doctree"
	"verif/internal/vk"
)

// ---- spelling families --------------------------------------------------------------
//
// main          every feature the property lists; plain scalars only where YAML 1.1
//               and YAML 1.2 agree that the scalar is a string; no alias below a
//               raw-value keyword (see alias-raw); expected silent.
// yaml11        additionally writes on/off/yes/no/y/n, 12:30, = PLAIN: strings for
//               the YAML 1.2 core schema and for ogen's front end (go-faster/yaml
//               tags them !!str), non-strings for YAML 1.1.
// date          additionally writes YYYY-MM-DD strings plain (1.2 core: string;
//               yaml.v3 lineage: !!timestamp).
// alias-raw     aliases also below enum/default/example/… values.
// alias-refpath aliases also for nodes that a local "$ref" pointer has to traverse.
// merge         merge keys ("<<: *a") for mappings that start with the members of
//               an earlier mapping.
const (
	famMain      = "main"
	famYAML11    = "yaml11"
	famDate      = "date"
	famAliasRaw  = "alias-raw"
	famMerge     = "merge"
	famAliasRef  = "alias-refpath"
)

// rawValueKeys: members whose value ogen keeps as raw JSON through
// jsonschema.RawValue / Enum (convertYAMLtoRawJSON): enum, default, example,
// Example.value, Link.parameters values (everything below "links"); "const" is
// listed for symmetry. The main family uses no alias below them.
var rawValueKeys = []string{"enum", "default", "example", "value", "const", "links"}

type styleCase struct {
	Fam   string        `json:"fam"`
	Style doctree.Style `json:"style"`
}

var pmSet = []int{0, 0, 60, 300, 1000}

func drawPM(t *rapid.T, label string) int { return rapid.SampledFrom(pmSet).Draw(t, label) }

func drawStyle(t *rapid.T, fams []string) styleCase {
	fam := rapid.SampledFrom(fams).Draw(t, "family")
	var st doctree.Style
	classes := []string{"yaml-block", "yaml-block", "yaml-block", "yaml-mixed", "yaml-mixed", "yaml-flow", "json-indent", "json-odd", "json-compact"}
	switch fam {
	case famYAML11, famDate, famAliasRaw, famMerge, famAliasRef:
		classes = []string{"yaml-block", "yaml-block", "yaml-mixed", "yaml-flow"}
	}
	st.Class = rapid.SampledFrom(classes).Draw(t, "class")
	st.Seed = rapid.Uint64().Draw(t, "seed")
	st.CRLF = rapid.IntRange(0, 9).Draw(t, "crlf") == 0
	if st.IsJSON() {
		st.Indent = rapid.IntRange(0, 8).Draw(t, "indent")
		st.JSONEscapePM = rapid.SampledFrom([]int{0, 0, 30, 300}).Draw(t, "json-escape")
		st.JSONSurrogatePM = rapid.SampledFrom([]int{0, 300, 1000}).Draw(t, "surrogate")
		return styleCase{fam, st}
	}
	st.Indent = rapid.IntRange(2, 8).Draw(t, "indent")
	st.SeqIndentless = rapid.Bool().Draw(t, "indentless")
	st.DocStart = rapid.Bool().Draw(t, "docstart")
	st.DocEnd = rapid.IntRange(0, 4).Draw(t, "docend") == 0
	st.BOM = rapid.IntRange(0, 11).Draw(t, "bom") == 0
	if st.Class == "yaml-mixed" {
		st.FlowPM = rapid.SampledFrom([]int{60, 300, 600}).Draw(t, "flow")
	}
	if st.Class != "yaml-block" {
		st.FlowBreakPM = drawPM(t, "flowbreak")
		st.JSONKeyPM = drawPM(t, "jsonkey")
	}
	st.CompactPM = drawPM(t, "compact")
	st.ExplicitPM = rapid.SampledFrom([]int{0, 0, 0, 40, 300}).Draw(t, "explicit")
	st.CommentPM = drawPM(t, "comment")
	st.TrailPM = drawPM(t, "trail")
	st.BlankPM = drawPM(t, "blank")
	st.PlainPM = rapid.SampledFrom([]int{0, 300, 1000, 1000}).Draw(t, "plain")
	st.SinglePM = drawPM(t, "single")
	st.LiteralPM = drawPM(t, "literal")
	st.KeyPlainPM = rapid.SampledFrom([]int{0, 300, 1000, 1000}).Draw(t, "keyplain")
	st.KeySinglePM = drawPM(t, "keysingle")
	st.EscapePM = rapid.SampledFrom([]int{0, 0, 30, 300}).Draw(t, "escape")
	st.NullAltPM = drawPM(t, "nullalt")
	st.BoolAltPM = drawPM(t, "boolalt")
	st.AliasPM = rapid.SampledFrom([]int{0, 0, 300, 1000}).Draw(t, "alias")
	st.ScalarAliasPM = rapid.SampledFrom([]int{0, 0, 0, 100, 600}).Draw(t, "scalaralias")
	st.NoAliasUnder = rawValueKeys
	st.ProtectRefPaths = true
	switch fam {
	case famYAML11:
		st.YAML11PM = rapid.SampledFrom([]int{300, 1000}).Draw(t, "yaml11")
	case famDate:
		st.DatePM = rapid.SampledFrom([]int{300, 1000}).Draw(t, "date")
	case famAliasRaw:
		st.NoAliasUnder = nil
		st.AliasPM = rapid.SampledFrom([]int{300, 1000}).Draw(t, "alias!")
		st.ScalarAliasPM = rapid.SampledFrom([]int{0, 300, 1000}).Draw(t, "scalaralias!")
	case famAliasRef:
		st.ProtectRefPaths = false
		st.AliasPM = rapid.SampledFrom([]int{300, 1000}).Draw(t, "alias!")
	case famMerge:
		st.MergePM = rapid.SampledFrom([]int{300, 1000}).Draw(t, "merge")
	}
	return styleCase{fam, st}
}

// fixedStyles: deterministic spellings every corpus file is run through before
// the random ones (seed taken from VERIF_SEED and the file name).
func fixedStyles(seed uint64) []styleCase {
	return []styleCase{
		{famMain, doctree.Style{Class: "yaml-block", Indent: 2, Seed: seed, PlainPM: 1000, KeyPlainPM: 1000, LiteralPM: 1000, CompactPM: 1000, SeqIndentless: true}},
		{famMain, doctree.Style{Class: "yaml-flow", Seed: seed + 1, PlainPM: 500, KeyPlainPM: 500, SinglePM: 500, FlowBreakPM: 200, JSONKeyPM: 300}},
		{famMain, doctree.Style{Class: "yaml-mixed", Indent: 4, Seed: seed + 2, FlowPM: 200, PlainPM: 700, KeyPlainPM: 700, SinglePM: 300, LiteralPM: 500, CommentPM: 200, TrailPM: 100, BlankPM: 100,
			AliasPM: 1000, ScalarAliasPM: 300, NoAliasUnder: rawValueKeys, ProtectRefPaths: true, DocStart: true, EscapePM: 20, NullAltPM: 300, BoolAltPM: 300, ExplicitPM: 30}},
		{famMain, doctree.Style{Class: "json-indent", Indent: 0, Seed: seed + 3, CRLF: true, JSONEscapePM: 20, JSONSurrogatePM: 500}},
	}
}

// ---- the oracle ------------------------------------------------------------------------

// subject is one document under test with its memoised baseline.
type subject struct {
	Original     []byte // corpus subjects: the file as it is on disk
	OriginalJSON bool

	ID    string
	Tree  *doctree.Node
	Prof  profile
	Canon []byte
	Sens  int
	Hash  uint64

	once sync.Once
	base outcome
}

func newSubject(id string, tree *doctree.Node, p profile) *subject {
	s := &subject{ID: id, Tree: tree, Prof: p}
	s.Canon = doctree.CompactJSON(tree)
	s.Sens = sensitiveKeywords(tree)
	h := fnv.New64a()
	h.Write(s.Canon)
	s.Hash = h.Sum64()
	return s
}

func (s *subject) baseline() outcome {
	s.once.Do(func() { s.base = runOgen(s.Canon, s.Prof, false) })
	return s.base
}

type harnessErrors struct {
	mu   sync.Mutex
	msgs []string
}

func (h *harnessErrors) add(format string, args ...any) {
	h.mu.Lock()
	if len(h.msgs) < 20 {
		h.msgs = append(h.msgs, fmt.Sprintf(format, args...))
	}
	h.mu.Unlock()
}

// readBack is the precondition: the spelling must denote the source tree for an
// independent reader. "" when it does.
func readBack(tree *doctree.Node, text []byte, sc styleCase, used doctree.Used) string {
	st := sc.Style
	if st.IsJSON() {
		got, err := doctree.ParseJSON(text)
		if err != nil {
			return "encoding/json: " + err.Error()
		}
		if d := doctree.Diff(tree, got); d != "" {
			return "encoding/json reads a different tree: " + d
		}
		if used.JSONOnly > 0 {
			// "\/" and surrogate-pair escapes are JSON (and YAML 1.2) but unknown to
			// yaml.v3: for such spellings encoding/json is the only reference reader
			return ""
		}
	}
	got, err := doctree.ParseYAML(text, doctree.YAMLOptions{Strict: st.DatePM == 0})
	if err != nil {
		return "yaml.v3: " + err.Error()
	}
	if d := doctree.Diff(tree, got); d != "" {
		return "yaml.v3 reads a different tree: " + d
	}
	return ""
}

// ablations: for a family's special feature, the same spelling with only that
// feature restricted / switched off. A mismatch is attributed to the known
// shape (and gets its classifier) only if the ablated spelling agrees with the
// baseline; the second, coarser ablation gives a classifier that is NOT listed
// as known, so a new manifestation of the feature still is a violation.
type ablation struct {
	Style      doctree.Style
	Classifier string
}

func ablations(sc styleCase) []ablation {
	st := sc.Style
	switch sc.Fam {
	case famYAML11:
		a, b := st, st
		a.NoYAML11Under = rawValueKeys
		b.YAML11PM = 0
		return []ablation{{a, "yaml11-plain-scalar-retyped-in-raw-value"}, {b, "yaml11-plain-scalar-retyped-elsewhere"}}
	case famDate:
		a, b := st, st
		a.NoYAML11Under = rawValueKeys
		b.DatePM = 0
		return []ablation{{a, "plain-date-retyped-in-raw-value"}, {b, "plain-date-retyped-elsewhere"}}
	case famAliasRaw:
		a, b := st, st
		a.NoAliasUnder = rawValueKeys
		b.AliasPM, b.ScalarAliasPM = 0, 0
		return []ablation{{a, "alias-inside-raw-value"}, {b, "alias-changes-meaning"}}
	case famAliasRef:
		a, b := st, st
		a.ProtectRefPaths = true
		b.AliasPM, b.ScalarAliasPM = 0, 0
		return []ablation{{a, "ref-through-alias-unresolved"}, {b, "alias-changes-meaning"}}
	case famMerge:
		a, b := st, st
		a.NoMergeIn = []string{"properties", "patternProperties"}
		b.MergePM = 0
		return []ablation{{a, "merge-key-in-properties-map"}, {b, "merge-key-not-applied"}}
	}
	return nil
}

func familyFeatureUsed(fam string, u doctree.Used) bool {
	switch fam {
	case famYAML11:
		return u.YAML11Plain > 0
	case famDate:
		return u.DatePlain > 0
	case famAliasRaw, famAliasRef:
		return u.Aliases > 0
	case famMerge:
		return u.Merges > 0
	}
	return false
}

// agree compares the outcomes of two texts of the same subject beyond a single
// run. "" = they differ; "agree"; "agree-as-sets" = the single runs differed
// but over repeated runs of the SAME texts the sets of outcomes intersect, i.e.
// one side's own outcome is not stable (map-order or goroutine-order dependent
// message selection, or non-deterministic output: C10's subject, not C17's).
func agree(s *subject, textA, textB []byte, a, b outcome) string {
	if sameOutcome(a, b) == "" {
		return "agree"
	}
	if a.OK != b.OK {
		// accepted vs rejected: confirm once more from scratch
		a2, b2 := runOgen(textA, s.Prof, false), runOgen(textB, s.Prof, false)
		if a2.OK == b2.OK && sameOutcome(a2, b2) == "" {
			return "agree-as-sets"
		}
		return ""
	}
	key := func(o outcome) string {
		if !o.OK {
			return "[" + o.Stage + "] " + o.Err
		}
		var sb strings.Builder
		for _, n := range o.Names {
			x := o.Sums[n]
			fmt.Fprintf(&sb, "%s=%x;", n, x[:8])
		}
		return sb.String()
	}
	sa, sb := map[string]bool{key(a): true}, map[string]bool{key(b): true}
	intersect := func() bool {
		for k := range sa {
			if sb[k] {
				return true
			}
		}
		return false
	}
	for round := 0; round < 20; round++ {
		sa[key(runOgen(textA, s.Prof, false))] = true
		sb[key(runOgen(textB, s.Prof, false))] = true
		if intersect() {
			return "agree-as-sets"
		}
		if round >= 4 && len(sa) == 1 && len(sb) == 1 {
			return "" // both sides stable over 5 more runs, and different
		}
	}
	return ""
}

type verdict struct {
	Finding    *vk.Finding
	Used       doctree.Used
	Skipped    string // precondition failed (harness problem), not evaluated
	Accepted   bool
	NonTrivial bool
}

func describeMismatch(s *subject, text []byte, base, got outcome) string {
	msg := sameOutcome(base, got)
	if base.OK && got.OK {
		// find the first differing file and line
		b2 := runOgen(s.Canon, s.Prof, true)
		g2 := runOgen(text, s.Prof, true)
		for _, n := range b2.Names {
			if x, ok := g2.Files[n]; ok && string(x) != string(b2.Files[n]) {
				msg = fmt.Sprintf("%s differs at %s", n, firstDiff(b2.Files[n], x))
				break
			}
		}
	}
	return msg
}

// classOriginal: the corpus file's own bytes as one more spelling of its tree
// (its author's formatting, anchors, folded scalars, …). It is used only when a
// strict re-read (string keys only, no !!timestamp scalars, numbers spelled as
// in JSON) gives exactly the tree; otherwise the case is skipped with a label.
const classOriginal = "original"

func evaluate(s *subject, sc styleCase, herr *harnessErrors) verdict {
	var (
		text []byte
		used doctree.Used
	)
	if sc.Style.Class == classOriginal {
		text = s.Original
		var got *doctree.Node
		var err error
		if s.OriginalJSON {
			got, err = doctree.ParseJSON(text)
		} else {
			got, err = doctree.ParseYAML(text, doctree.YAMLOptions{Strict: true})
		}
		if err != nil || doctree.Diff(s.Tree, got) != "" || !originalNumbersVerbatim(s, text) {
			return verdict{Skipped: "original-not-strict"}
		}
	} else {
		text, used = doctree.Emit(s.Tree, sc.Style)
		if why := readBack(s.Tree, text, sc, used); why != "" {
			herr.add("%s: spelling %+v does not read back: %s\ntext:\n%s", s.ID, sc.Style, why, clipStr(string(text), 6000))
			return verdict{Used: used, Skipped: why}
		}
	}
	v := verdict{Used: used}
	base := s.baseline()
	v.Accepted = base.OK
	yamlOrAlias := !sc.Style.IsJSON() && !(sc.Style.Class == classOriginal && s.OriginalJSON) || used.Aliases > 0
	v.NonTrivial = yamlOrAlias && s.Sens > 0
	got := runOgen(text, s.Prof, false)
	if got.Stage == "panic" && base.Stage != "panic" {
		v.Finding = vk.F("spelling-panic", "%s [%s/%s]: %s\nspelling:\n%s", s.ID, sc.Fam, sc.Style.Class, got.RawErr, clipStr(string(text), 1500))
		return v
	}
	if sameOutcome(base, got) == "" {
		return v
	}
	switch agree(s, s.Canon, text, base, got) {
	case "":
	case "agree":
		return v
	case "agree-as-sets":
		v.Skipped = "unstable-outcome" // agreed as sets over repeated runs
		return v
	}
	msg := describeMismatch(s, text, base, got)
	classifier := ""
	switch {
	case base.OK && got.OK:
		classifier = "spelling-changes-output"
	case base.OK:
		classifier = "spelling-rejected"
	case got.OK:
		classifier = "spelling-accepted"
	default:
		classifier = "diagnostic-differs"
	}
	if familyFeatureUsed(sc.Fam, used) {
		for _, ab := range ablations(sc) {
			t2, _ := doctree.Emit(s.Tree, ab.Style)
			if o2 := runOgen(t2, s.Prof, false); agree(s, s.Canon, t2, base, o2) != "" {
				classifier = ab.Classifier
				break
			}
		}
	}
	v.Finding = vk.F(classifier, "%s [%s/%s]: %s\nspelling (%d bytes):\n%s", s.ID, sc.Fam, sc.Style.Class, msg, len(text), excerpt(text, got))
	return v
}

// excerpt: the whole spelling when small, else its head.
func excerpt(text []byte, got outcome) string {
	return clipStr(string(text), 1800)
}

func record(u *vk.Unit, s *subject, sc styleCase, v verdict) {
	u.Label("family:" + sc.Fam)
	u.Label("class:" + sc.Style.Class)
	if v.Skipped != "" {
		u.Label("skipped:" + strings.SplitN(v.Skipped, ":", 2)[0])
		return
	}
	if v.Accepted {
		u.Label("baseline:accepted")
	} else {
		u.Label("baseline:rejected")
		if os.Getenv("C17_DEBUG") != "" {
			b := s.baseline()
			u.Label("reject:" + b.Stage + ":" + clipStr(lastPart(b.Err), 160))
		}
	}
	us := v.Used
	for name, n := range map[string]int{
		"plain": us.Plain, "single": us.Single, "literal": us.Literal, "comments": us.Comments, "blank": us.Blank,
		"aliases": us.Aliases, "scalar-aliases": us.ScalarAliases, "merges": us.Merges, "flow": us.FlowMaps + us.FlowSeqs,
		"compact": us.Compact, "explicit-keys": us.ExplicitKeys, "escapes": us.Escapes, "yaml11-plain": us.YAML11Plain,
		"date-plain": us.DatePlain, "null-alt": us.NullAlt, "bool-alt": us.BoolAlt, "plain-keys": us.PlainKeys,
		"surrogates": us.Surrogates, "flow-breaks": us.FlowBreaks,
	} {
		if n > 0 {
			u.Label("uses:" + name)
		}
	}
	if sc.Style.CRLF {
		u.Label("uses:crlf")
	}
	if sc.Style.BOM && !sc.Style.IsJSON() {
		u.Label("uses:bom")
	}
	if v.NonTrivial {
		u.NonTrivial(fmt.Sprintf("%x/%+v", s.Hash, sc.Style))
		u.Label("non-trivial")
	}
}

// ---- corpus --------------------------------------------------------------------------

var corpusAliases = map[string]map[string]ir.Encoding{
	"examples/autorest/ApiManagementClient-openapi.json": {
		"text/json":                        ir.EncodingJSON,
		"application/vnd.swagger.doc+json": ir.EncodingJSON,
	},
	"examples/api.github.com.json": {
		"text/x-markdown":                  ir.EncodingTextPlain,
		"text/html":                        ir.EncodingTextPlain,
		"application/octocat-stream":       ir.EncodingTextPlain,
		"application/vnd.github.v3.object": ir.EncodingJSON,
		"application/scim+json":            ir.EncodingJSON,
	},
	"examples/k8s.json": {
		"application/jwk-set+json":               ir.EncodingJSON,
		"application/merge-patch+json":           ir.EncodingJSON,
		"application/strategic-merge-patch+json": ir.EncodingJSON,
	},
}

type corpusFile struct {
	Rel  string
	Size int64
}

func listCorpus(dirs ...string) []corpusFile {
	root := filepath.Join(repoDir(), "_testdata")
	var out []corpusFile
	for _, d := range dirs {
		_ = filepath.Walk(filepath.Join(root, d), func(p string, fi os.FileInfo, err error) error {
			if err != nil || fi.IsDir() || fi.Size() == 0 {
				return nil
			}
			switch filepath.Ext(p) {
			case ".json", ".yml", ".yaml":
			default:
				return nil
			}
			rel, _ := filepath.Rel(root, p)
			rel = filepath.ToSlash(rel)
			if strings.Contains(rel, "file_reference_external/") {
				return nil // not a spec: the target of file_reference.yml
			}
			out = append(out, corpusFile{rel, fi.Size()})
			return nil
		})
	}
	sort.Slice(out, func(i, j int) bool { return out[i].Rel < out[j].Rel })
	return out
}

var (
	subjMu   sync.Mutex
	subjects = map[string]*subject{}
)

func corpusSubject(rel string, strict bool) (*subject, error) {
	key := fmt.Sprintf("%s|%v", rel, strict)
	subjMu.Lock()
	defer subjMu.Unlock()
	if s, ok := subjects[key]; ok {
		return s, nil
	}
	root := filepath.Join(repoDir(), "_testdata")
	data, err := os.ReadFile(filepath.Join(root, filepath.FromSlash(rel)))
	if err != nil {
		return nil, err
	}
	var tree *doctree.Node
	if strings.HasSuffix(rel, ".json") {
		tree, err = doctree.ParseJSON(data)
	} else {
		tree, err = doctree.ParseYAML(data, doctree.YAMLOptions{})
	}
	if err != nil {
		return nil, fmt.Errorf("%s: %w", rel, err)
	}
	p := profile{Aliases: corpusAliases[rel], Strict: strict}
	if strings.Contains(rel, "convenient_errors/") {
		p.ConvenientErrors = true
	}
	if strings.HasSuffix(rel, "positive/file_reference.yml") {
		p.RemoteRoot = filepath.Join(root, "positive")
		p.RootName = "file_reference.yml"
	}
	s := newSubject(rel, tree, p)
	s.Original, s.OriginalJSON = data, strings.HasSuffix(rel, ".json")
	subjects[key] = s
	return s, nil
}

type corpusCase struct {
	File string    `json:"file"`
	SC   styleCase `json:"spelling"`
}

func fileSeed(rel string) uint64 {
	h := fnv.New64a()
	fmt.Fprintf(h, "%d/%s", vk.Seed(), rel)
	return h.Sum64()
}

func runCorpusUnit(t *testing.T, unit string, dirs []string, strict bool, fams []string, perFile int) {
	u := vk.New(t, "C17", unit)
	defer u.Close()
	herr := &harnessErrors{}
	defer func() {
		for _, m := range herr.msgs {
			u.Note("HARNESS: %s", clipStr(m, 7000))
		}
		if len(herr.msgs) > 0 {
			t.Errorf("harness: %d spelling(s) did not read back as the source tree (emitter bug, not a finding); first: %s", len(herr.msgs), clipStr(herr.msgs[0], 1500))
		}
	}()
	files := listCorpus(dirs...)
	if len(files) == 0 {
		t.Fatalf("no corpus files under %s/_testdata/%v", repoDir(), dirs)
	}
	// the two largest documents only in the thorough tier
	if vk.Tier() != "thorough" {
		bySize := append([]corpusFile(nil), files...)
		sort.Slice(bySize, func(i, j int) bool { return bySize[i].Size > bySize[j].Size })
		drop := map[string]bool{}
		for i := 0; i < 2 && i < len(bySize); i++ {
			if bySize[i].Size > 600_000 {
				drop[bySize[i].Rel] = true
			}
		}
		var keep []corpusFile
		for _, f := range files {
			if !drop[f.Rel] {
				keep = append(keep, f)
			}
		}
		files = keep
	}
	u.Set("files", len(files))
	check := func(c corpusCase) *vk.Finding {
		s, err := corpusSubject(c.File, strict)
		if err != nil {
			herr.add("load: %v", err)
			return nil
		}
		v := evaluate(s, c.SC, herr)
		record(u, s, c.SC, v)
		if v.NonTrivial {
			u.Sample(map[string]any{"file": c.File, "class": c.SC.Style.Class, "fam": c.SC.Fam})
		}
		return v.Finding
	}
	// fixed pass: every file (of this shard) × fixed spellings
	shard, shards := vk.Shard()
	var regress []corpusCase
	if !vk.InReplay() {
		// spread by cumulative size so that shards get similar work
		order := append([]corpusFile(nil), files...)
		sort.Slice(order, func(i, j int) bool {
			if order[i].Size != order[j].Size {
				return order[i].Size > order[j].Size
			}
			return order[i].Rel < order[j].Rel
		})
		for i, f := range order {
			if i%shards != shard {
				continue
			}
			regress = append(regress, corpusCase{f.Rel, styleCase{famMain, doctree.Style{Class: classOriginal}}})
			for _, sc := range fixedStyles(fileSeed(f.Rel)) {
				regress = append(regress, corpusCase{f.Rel, sc})
			}
		}
	}
	// random pass: file drawn with a weight that favours small documents
	var weighted []string
	for _, f := range files {
		w := 1
		switch {
		case f.Size < 20_000:
			w = 6
		case f.Size < 150_000:
			w = 3
		}
		for i := 0; i < w; i++ {
			weighted = append(weighted, f.Rel)
		}
	}
	n := scaled(perFile * len(files))
	vk.Rapid(u, n, regress, func(rt *rapid.T) corpusCase {
		return corpusCase{
			File: rapid.SampledFrom(weighted).Draw(rt, "file"),
			SC:   drawStyle(rt, fams),
		}
	}, check)
}

var mainHeavy = []string{famMain, famMain, famMain, famMain, famMain, famMain, famYAML11, famDate, famAliasRaw, famAliasRef, famMerge}

func TestCorpus(t *testing.T) {
	runCorpusUnit(t, "corpus", []string{"positive", "examples"}, false, mainHeavy, vk.N(2, 20))
}

func TestNegative(t *testing.T) {
	runCorpusUnit(t, "negative", []string{"negative"}, true, mainHeavy, vk.N(6, 100))
}

func lastPart(e string) string {
	if i := strings.LastIndex(e, "at <pos>: "); i >= 0 {
		return e[i+10:]
	}
	return e
}

// originalNumbersVerbatim: a YAML original may spell numbers in ways JSON cannot
// (0x1F, 1_000, +1); the tree then holds a normalised text and the original is
// not a spelling of the tree in the sense of this check. Cheap test: every
// number text of the tree occurs verbatim in the file.
func originalNumbersVerbatim(s *subject, text []byte) bool {
	if s.OriginalJSON {
		return true
	}
	ok := true
	str := string(text)
	s.Tree.Walk(func(_ []string, n *doctree.Node) {
		if ok && n.Kind == doctree.Num && !strings.Contains(str, n.S) {
			ok = false
		}
	})
	return ok
}
