package c17

import (
	"testing"

	"verif/internal/vk"
)

// native fuzz target: generator and oracle of unit "sensitive", driven by coverage
func FuzzSensitive(f *testing.F) { vk.FuzzUnit(f, TestSensitive, 0) }
