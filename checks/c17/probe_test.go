package c17

import (
	"fmt"
	"os"
	"path/filepath"
	"strings"
	"testing"
	"time"

	"verif/internal/doctree"
)

func TestProbeCorpus(t *testing.T) {
	if os.Getenv("C17_PROBE") == "" {
		t.Skip()
	}
	root := filepath.Join(repoDir(), "_testdata")
	var files []string
	for _, d := range []string{"positive", "examples", "negative"} {
		filepath.Walk(filepath.Join(root, d), func(p string, fi os.FileInfo, err error) error {
			if err == nil && !fi.IsDir() && fi.Size() > 0 {
				files = append(files, p)
			}
			return nil
		})
	}
	for _, f := range files {
		data, _ := os.ReadFile(f)
		var tree *doctree.Node
		var err error
		if strings.HasSuffix(f, ".json") {
			tree, err = doctree.ParseJSON(data)
		} else {
			tree, err = doctree.ParseYAML(data, doctree.YAMLOptions{})
		}
		if err != nil {
			fmt.Printf("LOAD FAIL %s: %v\n", f, err)
			continue
		}
		canon := doctree.CompactJSON(tree)
		t0 := time.Now()
		o := runOgen(canon, profile{}, false)
		d := time.Since(t0)
		fmt.Printf("%-60s nodes=%-7d canon=%-8d ok=%v %s %v %s\n", strings.TrimPrefix(f, root+"/"), tree.Count(), len(canon), o.OK, o.Stage, d.Round(time.Millisecond), clipStr(o.Err, 150))
	}
}
