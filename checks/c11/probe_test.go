package c11

import (
	"time"
	"encoding/json"
	"fmt"
	"os"
	"testing"
)

func TestProbeBases(t *testing.T) {
	if os.Getenv("C11_PROBE") == "" {
		t.Skip()
	}
	loadCorpus()
	for _, b := range corpusFiles {
		if len(b.Data) > 600<<10 {
			continue
		}
		tr := b.Tree()
		if tr == nil {
			fmt.Printf("%-50s %8d UNUSABLE %s\n", b.Rel, len(b.Data), b.reason)
			continue
		}
		j := emitJSON(tr)
		_, errj := indexDoc(j, tr)
		y, erry := emitYAML(tr)
		if erry == nil {
			_, erry = indexDoc(y, tr)
		}
		v, _ := execute(request{Name: jsonName, Data: j})
		v2, _ := execute(request{Name: jsonName, Data: j, Strict: true})
		vo, _ := execute(request{Name: jsonName, Data: b.Data})
		fmt.Printf("%-50s %8d nodes=%6d jsonerr=%v yamlerr=%v lax=%s@%s %dms strict=%s %dms orig=%s %dms %s\n", b.Rel, len(b.Data), b.sites.nodes, errj, erry, v.Class, v.Stage, v.MS, v2.Class, v2.MS, vo.Class, vo.MS, clip(v2.Err, 100))
	}
}

func TestProbeDump(t *testing.T) {
	cs := os.Getenv("C11_CASE")
	if cs == "" {
		t.Skip()
	}
	var c mutCase
	if err := json.Unmarshal([]byte(cs), &c); err != nil {
		t.Fatal(err)
	}
	base, why := c.baseTree()
	if base == nil {
		t.Fatal(why)
	}
	a, ok := apply(base, c.Fault, c.Arg, site{Path: c.Path, Key: c.Key})
	if !ok {
		t.Fatal("inapplicable")
	}
	j := emitJSON(a.Tree)
	y, _ := emitYAML(a.Tree)
	os.WriteFile("/tmp/probe-c11/m.json", j, 0o644)
	os.WriteFile("/tmp/probe-c11/m.yaml", y, 0o644)
	vj, _ := execute(request{Name: jsonName, Data: j, Strict: c.Strict})
	vy, _ := execute(request{Name: yamlName, Data: y, Strict: c.Strict})
	fmt.Printf("fault at %s (mutated path %v)\nJSON: %s@%s %s %+v\nYAML: %s@%s %s %+v\n", pointerOf(base.keyPath(c.Path)), a.Fault, vj.Class, vj.Stage, vj.Err, vj.Locs, vy.Class, vy.Stage, vy.Err, vy.Locs)
	fmt.Printf("STDERR JSON:\n%s\n", vj.Stderr)
	o := evalMutant(c)
	fmt.Printf("labels=%v finding=%+v\n", o.labels, o.finding)
}

func TestProbeDeep(t *testing.T) {
	if os.Getenv("C11_DEEP") == "" {
		t.Skip()
	}
	var d int
	kind := "array"
	fmt.Sscanf(os.Getenv("C11_DEEP"), "%d", &d)
	if k := os.Getenv("C11_KIND"); k != "" {
		kind = k
	}
	tree := mapping("openapi", str("3.0.3"), "info", mapping("title", str("t"), "version", str("1")),
		"paths", mapping("/a", mapping("get", mapping("operationId", str("a"), "responses", mapping("200", mapping("description", str("d"), "content", mapping("application/json", mapping("schema", deepSchema(fmt.Sprintf("%s:%d", kind, d))))))))))
	j := emitJSON(tree)
	os.WriteFile("/tmp/probe-c11/deep.json", j, 0o644)
	w, _ := startWorker()
	v, _ := w.run(request{Name: jsonName, Data: j}, 40*time.Second)
	fmt.Printf("%s depth=%d size=%d -> %s@%s %dms %s\n%s\n", kind, d, len(j), v.Class, v.Stage, v.MS, clip(v.Err, 150), v.Stderr)
}

func TestProbeCount(t *testing.T) {
	if os.Getenv("C11_COUNT") == "" {
		t.Skip()
	}
	loadCorpus()
	tot := 0
	for _, b := range corpusFiles {
		if b.Tree() == nil {
			continue
		}
		n := 0
		for _, f := range faultKinds {
			n += len(b.sites.byFault[f])
		}
		fmt.Printf("%-50s %8d nodes=%6d mutants=%6d\n", b.Rel, len(b.Data), b.sites.nodes, n)
		if len(b.Data) <= 64<<10 {
			tot += n
		}
	}
	fmt.Println("total <=64KiB:", tot)
}
