package c11

// Ordered document tree used to BUILD mutants, the two emitters (JSON, YAML)
// and the position index of an emitted text. Nothing here is used by the code
// under test; positions are read from gopkg.in/yaml.v3 (upstream), ogen uses
// the go-faster fork.

import (
	"bytes"
	"encoding/json"
	"fmt"
	"math"
	"math/big"
	"regexp"
	"strconv"
	"strings"

	yaml3 "gopkg.in/yaml.v3"
)

type kind int

const (
	kMap kind = iota
	kSeq
	kStr
	kNum
	kBool
	kNull
)

func (k kind) String() string {
	return [...]string{"map", "seq", "str", "num", "bool", "null"}[k]
}

type node struct {
	K    kind
	S    string   // scalar text: the string, the number literal, "true"/"false", "null"
	YS   string   // kNum only, optional: how the YAML spelling writes the number (.5 for 0.5, +5 for 5)
	Keys []string // kMap: keys, parallel to Kids
	Kids []*node  // kMap: values; kSeq: items
}

func str(s string) *node   { return &node{K: kStr, S: s} }
func num(s string) *node   { return &node{K: kNum, S: s} }
func null() *node          { return &node{K: kNull, S: "null"} }
func boolean(b bool) *node { return &node{K: kBool, S: strconv.FormatBool(b)} }
func mapping(kv ...any) *node {
	n := &node{K: kMap}
	for i := 0; i+1 < len(kv); i += 2 {
		n.Keys = append(n.Keys, kv[i].(string))
		n.Kids = append(n.Kids, kv[i+1].(*node))
	}
	return n
}
func sequence(items ...*node) *node { return &node{K: kSeq, Kids: items} }

func (n *node) clone() *node {
	c := &node{K: n.K, S: n.S, YS: n.YS}
	if n.Keys != nil {
		c.Keys = append([]string{}, n.Keys...)
	}
	if n.Kids != nil {
		c.Kids = make([]*node, len(n.Kids))
		for i, k := range n.Kids {
			c.Kids[i] = k.clone()
		}
	}
	return c
}

func (n *node) get(key string) *node {
	if n == nil || n.K != kMap {
		return nil
	}
	for i, k := range n.Keys {
		if k == key {
			return n.Kids[i]
		}
	}
	return nil
}

// at follows an index path.
func (n *node) at(path []int) *node {
	for _, i := range path {
		if n == nil || i < 0 || i >= len(n.Kids) {
			return nil
		}
		n = n.Kids[i]
	}
	return n
}

// keyPath renders an index path as the list of keys / indices (JSON pointer tokens).
func (n *node) keyPath(path []int) []string {
	var out []string
	for _, i := range path {
		if n == nil || i < 0 || i >= len(n.Kids) {
			out = append(out, fmt.Sprintf("?%d", i))
			n = nil
			continue
		}
		if n.K == kMap {
			out = append(out, n.Keys[i])
		} else {
			out = append(out, strconv.Itoa(i))
		}
		n = n.Kids[i]
	}
	return out
}

func pointerOf(tokens []string) string {
	var b strings.Builder
	b.WriteByte('#')
	for _, t := range tokens {
		b.WriteByte('/')
		t = strings.ReplaceAll(t, "~", "~0")
		t = strings.ReplaceAll(t, "/", "~1")
		b.WriteString(t)
	}
	return b.String()
}

var jsonNumber = regexp.MustCompile(`^-?(0|[1-9][0-9]*)(\.[0-9]+)?([eE][-+]?[0-9]+)?$`)

// fromYAML converts a yaml.v3 node (aliases expanded) into the ordered tree.
// ok=false: the document uses something the tree cannot express faithfully in
// JSON (non-scalar keys, merge keys, .inf/.nan).
func fromYAML(y *yaml3.Node, depth int) (*node, bool) {
	if depth > 2000 {
		return nil, false
	}
	switch y.Kind {
	case yaml3.DocumentNode:
		if len(y.Content) != 1 {
			return nil, false
		}
		return fromYAML(y.Content[0], depth+1)
	case yaml3.AliasNode:
		if y.Alias == nil {
			return nil, false
		}
		return fromYAML(y.Alias, depth+1)
	case yaml3.MappingNode:
		n := &node{K: kMap}
		for i := 0; i+1 < len(y.Content); i += 2 {
			k := y.Content[i]
			if k.Kind == yaml3.AliasNode && k.Alias != nil {
				k = k.Alias
			}
			if k.Kind != yaml3.ScalarNode || k.ShortTag() == "!!merge" {
				return nil, false
			}
			v, ok := fromYAML(y.Content[i+1], depth+1)
			if !ok {
				return nil, false
			}
			n.Keys = append(n.Keys, k.Value)
			n.Kids = append(n.Kids, v)
		}
		return n, true
	case yaml3.SequenceNode:
		n := &node{K: kSeq, Kids: []*node{}}
		for _, c := range y.Content {
			v, ok := fromYAML(c, depth+1)
			if !ok {
				return nil, false
			}
			n.Kids = append(n.Kids, v)
		}
		return n, true
	case yaml3.ScalarNode:
		switch y.ShortTag() {
		case "!!null":
			return null(), true
		case "!!bool":
			var b bool
			if err := y.Decode(&b); err != nil {
				return nil, false
			}
			return boolean(b), true
		case "!!int":
			if jsonNumber.MatchString(y.Value) {
				return num(y.Value), true
			}
			z, ok := new(big.Int).SetString(strings.ReplaceAll(y.Value, "_", ""), 0)
			if !ok {
				return nil, false
			}
			return num(z.String()), true
		case "!!float":
			if jsonNumber.MatchString(y.Value) {
				return num(y.Value), true
			}
			f, err := strconv.ParseFloat(strings.ReplaceAll(y.Value, "_", ""), 64)
			if err != nil || math.IsInf(f, 0) || math.IsNaN(f) {
				return nil, false
			}
			return num(strconv.FormatFloat(f, 'g', -1, 64)), true
		default: // !!str, !!timestamp, !!binary, custom tags: the text
			return str(y.Value), true
		}
	}
	return nil, false
}

// ---- JSON spelling -----------------------------------------------------------------

func jsonString(s string) string {
	var b bytes.Buffer
	e := json.NewEncoder(&b)
	e.SetEscapeHTML(false)
	_ = e.Encode(s)
	return strings.TrimRight(b.String(), "\n")
}

// emitJSON writes the tree as JSON, one member per line (indent 2) so that
// lines are meaningful; containers deeper than flatFrom are written on one
// line (keeps 1000-deep documents small).
func emitJSON(n *node) []byte {
	var b bytes.Buffer
	writeJSON(&b, n, 0)
	b.WriteByte('\n')
	return b.Bytes()
}

const flatFrom = 60

func writeJSON(b *bytes.Buffer, n *node, depth int) {
	nl := func(d int) {
		if depth >= flatFrom {
			return
		}
		b.WriteByte('\n')
		for i := 0; i < d; i++ {
			b.WriteString("  ")
		}
	}
	switch n.K {
	case kMap:
		if len(n.Kids) == 0 {
			b.WriteString("{}")
			return
		}
		b.WriteByte('{')
		for i, k := range n.Keys {
			if i > 0 {
				b.WriteByte(',')
				if depth >= flatFrom {
					b.WriteByte(' ')
				}
			}
			nl(depth + 1)
			b.WriteString(jsonString(k))
			b.WriteString(": ")
			writeJSON(b, n.Kids[i], depth+1)
		}
		nl(depth)
		b.WriteByte('}')
	case kSeq:
		if len(n.Kids) == 0 {
			b.WriteString("[]")
			return
		}
		b.WriteByte('[')
		for i, c := range n.Kids {
			if i > 0 {
				b.WriteByte(',')
				if depth >= flatFrom {
					b.WriteByte(' ')
				}
			}
			nl(depth + 1)
			writeJSON(b, c, depth+1)
		}
		nl(depth)
		b.WriteByte(']')
	case kStr:
		b.WriteString(jsonString(n.S))
	default:
		b.WriteString(n.S)
	}
}

// ---- YAML spelling -----------------------------------------------------------------

// plainSafe: strings that every YAML version (1.1 as used by the ghodss detour
// inside ogen, 1.2 as used by the front end) reads as the same string when
// written plain. Everything else is double-quoted, so that the YAML spelling
// denotes the same data as the JSON spelling beyond doubt (what YAML 1.1 makes
// of plain on/off/y/n is property C17's subject, not this one's).
var (
	plainSafe = regexp.MustCompile(`^[A-Za-z][A-Za-z0-9_./-]*( [A-Za-z0-9_./-]+)*$`)
	yaml11    = regexp.MustCompile(`^(?i:y|n|yes|no|on|off|true|false|null|nan|inf)$`)
)

func yamlStr(s string) *yaml3.Node {
	// the encoder itself quotes a !!str whose plain form would resolve to something else
	y := &yaml3.Node{Kind: yaml3.ScalarNode, Tag: "!!str", Value: s}
	switch {
	case strings.Contains(s, "\n"):
		if strings.TrimSpace(s) == "" || s[0] == ' ' || s[0] == '\n' || s[0] == '\t' || strings.HasSuffix(s, "\n\n") || strings.HasSuffix(s, " ") {
			y.Style = yaml3.DoubleQuotedStyle // block scalars with odd leading/trailing white space do not survive yaml.v3
		}
	case !plainSafe.MatchString(s) || yaml11.MatchString(s):
		y.Style = yaml3.DoubleQuotedStyle
	}
	return y
}

// Response-code keys. Real YAML specs write them unquoted (`200:`, `404:`,
// `4XX:`), which makes `200` an !!int key in YAML while it is a string in JSON;
// ogen's front end accepts the int as the response code, so both spellings
// still denote the same spec. In the "plain code keys" style the keys of a
// `responses` mapping that are canonical decimal integers of at most 9 digits
// are written plain (the read-back check compares keys by their scalar text);
// anything whose text would not survive (0200, 1e2, 99999999999999999999) stays quoted.
var (
	plainIntKey   = regexp.MustCompile(`^(0|[1-9][0-9]{0,8})$`)
	plainRangeKey = regexp.MustCompile(`^[1-9]XX$`)
	codeLikeKey   = regexp.MustCompile(`^([0-9]{3}|[1-9]XX|default)$`)
)

func yamlKey(k, mapKey string, plainCodes bool) *yaml3.Node {
	if plainCodes && mapKey == "responses" {
		switch {
		case plainIntKey.MatchString(k):
			return &yaml3.Node{Kind: yaml3.ScalarNode, Value: k} // untagged plain scalar: resolves to !!int
		case plainRangeKey.MatchString(k):
			return &yaml3.Node{Kind: yaml3.ScalarNode, Tag: "!!str", Value: k} // plain, a string in every YAML version
		}
	}
	return yamlStr(k)
}

// hasPlainIntKey reports whether the plain style writes at least one !!int key
// in the tree, and whether one sits on the chain root→path (inclusive).
func hasPlainIntKey(root *node, path []int) (any, onChain bool) {
	var walk func(n *node, selfKey string)
	walk = func(n *node, selfKey string) {
		for i, c := range n.Kids {
			k := ""
			if n.K == kMap {
				k = n.Keys[i]
				if selfKey == "responses" && plainIntKey.MatchString(k) {
					any = true
				}
			}
			walk(c, k)
		}
	}
	walk(root, "")
	n, selfKey := root, ""
	for _, i := range path {
		if n == nil || i < 0 || i >= len(n.Kids) {
			break
		}
		k := ""
		if n.K == kMap {
			k = n.Keys[i]
			if selfKey == "responses" && plainIntKey.MatchString(k) {
				onChain = true
			}
		}
		n, selfKey = n.Kids[i], k
	}
	return any, onChain
}

func toYAML(n *node, depth int, selfKey string, plainCodes bool) *yaml3.Node {
	switch n.K {
	case kMap:
		y := &yaml3.Node{Kind: yaml3.MappingNode, Tag: "!!map"}
		if len(n.Kids) == 0 || depth >= flatFrom {
			y.Style = yaml3.FlowStyle
		}
		for i, k := range n.Keys {
			y.Content = append(y.Content, yamlKey(k, selfKey, plainCodes), toYAML(n.Kids[i], depth+1, k, plainCodes))
		}
		return y
	case kSeq:
		y := &yaml3.Node{Kind: yaml3.SequenceNode, Tag: "!!seq"}
		if len(n.Kids) == 0 || depth >= flatFrom {
			y.Style = yaml3.FlowStyle
		}
		for _, c := range n.Kids {
			y.Content = append(y.Content, toYAML(c, depth+1, "", plainCodes))
		}
		return y
	case kStr:
		return yamlStr(n.S)
	default:
		// plain scalar, verbatim (numbers keep their literal: 1e400, 99999999999999999999)
		if n.K == kNum && n.YS != "" {
			return &yaml3.Node{Kind: yaml3.ScalarNode, Value: n.YS}
		}
		return &yaml3.Node{Kind: yaml3.ScalarNode, Value: n.S}
	}
}

// emitYAML writes the tree as block YAML; plainCodes selects the style in which
// response-code keys are unquoted.
func emitYAML(n *node, plainCodes bool) ([]byte, error) {
	var b bytes.Buffer
	e := yaml3.NewEncoder(&b)
	e.SetIndent(2)
	if err := e.Encode(toYAML(n, 0, "", plainCodes)); err != nil {
		return nil, err
	}
	_ = e.Close()
	return b.Bytes(), nil
}

// ---- position index of an emitted text ------------------------------------------------

type posNode struct {
	Path  []int // index path of the entry
	IsKey bool  // the key scalar of that entry (same Path as its value)
	Line  int
	Col   int
}

type docIndex struct {
	nodes []posNode
	lines []string
}

// indexDoc parses text with yaml.v3, checks that it denotes exactly tree
// (harness self-check: the two spellings must be the same data) and lists the
// start position of every node and key.
func indexDoc(text []byte, tree *node) (*docIndex, error) {
	var doc yaml3.Node
	if err := yaml3.Unmarshal(text, &doc); err != nil {
		return nil, fmt.Errorf("emitted text does not parse: %w", err)
	}
	if doc.Kind != yaml3.DocumentNode || len(doc.Content) != 1 {
		return nil, fmt.Errorf("emitted text: unexpected document shape")
	}
	ix := &docIndex{lines: strings.Split(string(text), "\n")}
	if n := len(ix.lines); n > 0 && ix.lines[n-1] == "" {
		ix.lines = ix.lines[:n-1]
	}
	var walk func(y *yaml3.Node, n *node, path []int) error
	walk = func(y *yaml3.Node, n *node, path []int) error {
		ix.nodes = append(ix.nodes, posNode{Path: append([]int{}, path...), Line: y.Line, Col: y.Column})
		switch n.K {
		case kMap:
			if y.Kind != yaml3.MappingNode || len(y.Content) != 2*len(n.Kids) {
				return fmt.Errorf("at %v: want mapping of %d, got kind %d with %d", path, len(n.Kids), y.Kind, len(y.Content)/2)
			}
			for i := range n.Kids {
				// keys are compared by their scalar text: an unquoted 200 is an
				// !!int key in YAML and the string "200" in JSON, the same response code
				k := y.Content[2*i]
				if k.Kind != yaml3.ScalarNode || k.Value != n.Keys[i] {
					return fmt.Errorf("at %v: key %d is %q, want %q", path, i, k.Value, n.Keys[i])
				}
				p := append(path, i)
				ix.nodes = append(ix.nodes, posNode{Path: append([]int{}, p...), IsKey: true, Line: k.Line, Col: k.Column})
				if err := walk(y.Content[2*i+1], n.Kids[i], p); err != nil {
					return err
				}
			}
		case kSeq:
			if y.Kind != yaml3.SequenceNode || len(y.Content) != len(n.Kids) {
				return fmt.Errorf("at %v: want sequence of %d, got kind %d with %d", path, len(n.Kids), y.Kind, len(y.Content))
			}
			for i := range n.Kids {
				if err := walk(y.Content[i], n.Kids[i], append(path, i)); err != nil {
					return err
				}
			}
		case kStr:
			if y.Kind != yaml3.ScalarNode || y.Value != n.S || (y.Style&(yaml3.DoubleQuotedStyle|yaml3.SingleQuotedStyle|yaml3.LiteralStyle|yaml3.FoldedStyle) == 0 && y.ShortTag() != "!!str") {
				return fmt.Errorf("at %v: want string %q, got %q (tag %s, style %d)", path, clip(n.S, 40), clip(y.Value, 40), y.ShortTag(), y.Style)
			}
		default:
			if y.Kind != yaml3.ScalarNode || (y.Value != n.S && !(n.K == kNum && n.YS != "" && y.Value == n.YS)) || y.Style&(yaml3.DoubleQuotedStyle|yaml3.SingleQuotedStyle|yaml3.LiteralStyle|yaml3.FoldedStyle) != 0 {
				return fmt.Errorf("at %v: want plain %s %q, got %q (style %d)", path, n.K, n.S, y.Value, y.Style)
			}
			if n.K == kNum && n.YS != "" && y.Value == n.YS {
				// harness self-check: the YAML-only spelling denotes the number the JSON spelling writes
				a, errA := strconv.ParseFloat(n.S, 64)
				b, errB := strconv.ParseFloat(strings.TrimPrefix(n.YS, "+"), 64)
				if errA != nil || errB != nil || a != b || (y.ShortTag() != "!!float" && y.ShortTag() != "!!int") {
					return fmt.Errorf("at %v: YAML spelling %q (tag %s) is not the number %q", path, n.YS, y.ShortTag(), n.S)
				}
			}
		}
		return nil
	}
	if err := walk(doc.Content[0], tree, nil); err != nil {
		return nil, fmt.Errorf("emitted text denotes other data: %w", err)
	}
	return ix, nil
}

// at returns the nodes that start exactly at (line, col). In block YAML a
// mapping starts where its first key starts, so the answer is a set.
func (ix *docIndex) at(line, col int) []posNode {
	var out []posNode
	for _, p := range ix.nodes {
		if p.Line == line && p.Col == col {
			out = append(out, p)
		}
	}
	return out
}

// onLine returns the nodes that start on the line (for column-less positions).
func (ix *docIndex) onLine(line int) []posNode {
	var out []posNode
	for _, p := range ix.nodes {
		if p.Line == line {
			out = append(out, p)
		}
	}
	return out
}

func isPrefix(a, b []int) bool {
	if len(a) > len(b) {
		return false
	}
	for i := range a {
		if a[i] != b[i] {
			return false
		}
	}
	return true
}

// related: one path is an ancestor-or-self of the other.
func related(a, b []int) bool { return isPrefix(a, b) || isPrefix(b, a) }

func pathStr(p []int) string {
	var b strings.Builder
	for _, i := range p {
		fmt.Fprintf(&b, "/%d", i)
	}
	if b.Len() == 0 {
		return "/"
	}
	return b.String()
}
