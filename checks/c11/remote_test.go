package c11

import (
	"fmt"
	"net/url"
	"runtime/debug"
	"strings"
	"testing"
	"time"

	"github.com/ogen-go/ogen"
	"github.com/ogen-go/ogen/gen"
	"github.com/ogen-go/ogen/gen/genfs"
	"github.com/ogen-go/ogen/location"

	"verif/internal/vk"
)

// Unit "remote-faults": documents of TWO files. The root refers to schemas of a definitions file
// (response body, request body, parameter schema, and a schema that the definitions file reaches
// through a reference of its own); one fault sits in one schema of the definitions file. The clause
// "a located diagnostic names the document that contains the fault" cannot be exercised with one
// file: every position of the other units is judged against the only document there is.
//
// Oracle: no panic / hang; every position names one of the two files and lies inside THAT file; a
// position in the definitions file starts at a node on the chain root-of-file -> faulted schema (or
// inside it); a position in the root file starts at a node on the chain to the referring site; the
// JSON and the YAML spelling of the pair agree on class, stage, message (modulo positions and file
// names) and on which file each position names. The definitions file starts with a padding member
// that makes it longer than the root file, so a line of one file read as a line of the other is
// outside the document or off the chain.

type remoteFault struct {
	Name   string
	Schema func() *node // the faulted schema object
}

var remoteFaults = []remoteFault{
	{"default-of-other-type", func() *node { return mapping("type", str("integer"), "default", str("ten")) }},
	{"enum-member-of-other-type", func() *node { return mapping("type", str("integer"), "enum", sequence(num("1"), str("many"))) }},
	{"enum-duplicate", func() *node { return mapping("type", str("string"), "enum", sequence(str("a"), str("b"), str("a"))) }},
	{"field-names-collide", func() *node {
		return mapping("type", str("object"), "properties", mapping("a_b", mapping("type", str("string")), "aB", mapping("type", str("string"))))
	}},
	{"pattern-does-not-compile", func() *node { return mapping("type", str("string"), "pattern", str("a(b")) }},
	{"minimum-not-a-number", func() *node { return mapping("type", str("integer"), "minimum", str("x")) }},
	{"required-wrong-kind", func() *node {
		return mapping("type", str("object"), "required", str("a"), "properties", mapping("a", mapping("type", str("string"))))
	}},
	{"unknown-type", func() *node { return mapping("type", str("strin")) }},
	{"dangling-local-ref", func() *node { return mapping("$ref", str("#/components/schemas/C11Missing")) }},
	{"items-missing", func() *node { return mapping("type", str("array")) }},
	{"sum-not-discriminable", func() *node {
		return mapping("oneOf", sequence(mapping("type", str("object"), "properties", mapping("a", mapping("type", str("string")))),
			mapping("type", str("object"), "properties", mapping("a", mapping("type", str("string"))))))
	}},
	{"multipleOf-zero", func() *node { return mapping("type", str("number"), "multipleOf", num("0")) }},
	{"maxLength-negative", func() *node { return mapping("type", str("string"), "maxLength", num("-1")) }},
	{"allOf-conflicting-types", func() *node {
		return mapping("allOf", sequence(mapping("type", str("string")), mapping("type", str("integer"))))
	}},
	{"default-violates-nothing-but-null", func() *node { return mapping("type", str("string"), "default", null()) }},
	{"discriminator-mapping-dangling", func() *node {
		return mapping("oneOf", sequence(mapping("$ref", str("#/components/schemas/Good"))), "discriminator",
			mapping("propertyName", str("kind"), "mapping", mapping("x", str("#/components/schemas/C11Missing"))))
	}},
	{"no-fault", func() *node { return mapping("type", str("string"), "maxLength", num("5")) }},
}

// sites: where the root file refers to the faulted schema.
var remoteSites = []string{"response-body", "request-body", "parameter-schema", "through-definitions", "property-of-root-schema"}

type remoteCase struct {
	Fault string `json:"fault"`
	Site  string `json:"site"`
	YAML  bool   `json:"yaml"`
}

func (c remoteCase) files() (rootName, defsName string, root, defs *node, faultPath []string, sitePath []string) {
	ext := ".json"
	if c.YAML {
		ext = ".yml"
	}
	rootName, defsName = "/specs/root"+ext, "/specs/sub/defs"+ext
	var fs *node
	for _, f := range remoteFaults {
		if f.Name == c.Fault {
			fs = f.Schema()
		}
	}
	if fs == nil {
		fs = mapping("type", str("string"))
	}
	pad := &node{K: kMap}
	for i := 0; i < 60; i++ {
		pad.Keys = append(pad.Keys, fmt.Sprintf("line%02d", i))
		pad.Kids = append(pad.Kids, str("padding"))
	}
	schemas := mapping("Good", mapping("type", str("object"), "properties", mapping("kind", mapping("type", str("string")))),
		"Faulty", fs,
		"Via", mapping("type", str("object"), "properties", mapping("inner", mapping("$ref", str("#/components/schemas/Faulty")))))
	defs = mapping("x-padding", pad, "components", mapping("schemas", schemas))
	faultPath = []string{"components", "schemas", "Faulty"}
	ref := func(name string) *node { return mapping("$ref", str("sub/defs"+ext+"#/components/schemas/"+name)) }
	okResp := mapping("200", mapping("description", str("ok")))
	op := mapping("operationId", str("op"), "responses", okResp)
	method := "get"
	comps := mapping("schemas", mapping("Local", mapping("type", str("string"))))
	switch c.Site {
	case "response-body":
		op = mapping("operationId", str("op"), "responses", mapping("200", mapping("description", str("ok"), "content",
			mapping("application/json", mapping("schema", ref("Faulty"))))))
		sitePath = []string{"paths", "/a", "get", "responses", "200", "content", "application/json", "schema"}
	case "request-body":
		method = "post"
		op = mapping("operationId", str("op"), "requestBody", mapping("required", boolean(true), "content",
			mapping("application/json", mapping("schema", ref("Faulty")))), "responses", okResp)
		sitePath = []string{"paths", "/a", "post", "requestBody", "content", "application/json", "schema"}
	case "parameter-schema":
		op = mapping("operationId", str("op"), "parameters", sequence(mapping("name", str("q"), "in", str("query"), "schema", ref("Faulty"))), "responses", okResp)
		sitePath = []string{"paths", "/a", "get", "parameters", "0", "schema"}
	case "through-definitions":
		op = mapping("operationId", str("op"), "responses", mapping("200", mapping("description", str("ok"), "content",
			mapping("application/json", mapping("schema", ref("Via"))))))
		sitePath = []string{"paths", "/a", "get", "responses", "200", "content", "application/json", "schema"}
	default: // property-of-root-schema
		comps = mapping("schemas", mapping("Local", mapping("type", str("object"), "properties", mapping("far", ref("Faulty")))))
		op = mapping("operationId", str("op"), "responses", mapping("200", mapping("description", str("ok"), "content",
			mapping("application/json", mapping("schema", mapping("$ref", str("#/components/schemas/Local")))))))
		sitePath = []string{"components", "schemas", "Local", "properties", "far"}
	}
	root = mapping("openapi", str("3.0.3"), "info", mapping("title", str("remote"), "version", str("1.0.0")),
		"paths", mapping("/a", mapping(method, op)), "components", comps)
	return
}

func runRemote(rootName, defsName string, rootText, defsText []byte) (v verdict) {
	done := make(chan verdict, 1)
	go func() {
		var v verdict
		v.Stage = "parse"
		defer func() {
			if r := recover(); r != nil {
				v.Class = "panic"
				v.Panic = clip(fmt.Sprint(r), 600)
				st := string(debug.Stack())
				v.Top = topFrame(st, true)
				v.Stack = clip(st, 6000)
			}
			done <- v
		}()
		fail := func(err error) {
			v.Class = "error"
			v.Err = clip(err.Error(), 3000)
			v.Locs = collectLocs(err)
		}
		spec, err := ogen.Parse(rootText)
		if err != nil {
			fail(err)
			return
		}
		v.Stage = "newgen"
		files := map[string][]byte{rootName: rootText, defsName: defsText}
		g, err := gen.NewGenerator(spec, gen.Options{
			Generator: gen.GenerateOptions{IgnoreNotImplemented: []string{"all"}},
			Parser: gen.ParseOptions{
				InferSchemaType: true,
				AllowRemote:     true,
				RootURL:         &url.URL{Scheme: "file", Path: rootName},
				Remote: gen.RemoteOptions{
					ReadFile: func(p string) ([]byte, error) {
						if d, ok := files[p]; ok {
							return d, nil
						}
						return nil, fmt.Errorf("no such file %q", p)
					},
					URLToFilePath: func(u *url.URL) (string, error) { return u.Path, nil },
				},
				File: location.NewFile(rootName, rootName, rootText),
			},
		})
		if err != nil {
			fail(err)
			return
		}
		v.Stage = "write"
		if err := g.WriteSource(genfs.CheckFS{}, "api"); err != nil {
			fail(err)
			return
		}
		v.Stage, v.Class = "done", "ok"
	}()
	select {
	case v = <-done:
		return v
	case <-time.After(5 * time.Minute):
		return verdict{Class: "watchdog", Stage: "?"}
	}
}

// onChain: some node that starts at the position lies on the chain root -> target or below target.
func onChain(ix *docIndex, tree *node, l locInfo, target []string) (bool, string) {
	tp, ok := resolveTokens(tree, target)
	if !ok {
		return true, ""
	}
	cands := ix.at(l.Line, l.Col)
	if l.Col == 0 {
		cands = ix.onLine(l.Line)
	}
	if len(cands) == 0 {
		return false, "no node or key starts there"
	}
	var names []string
	for _, c := range cands {
		if related(c.Path, tp) {
			return true, ""
		}
		names = append(names, describePath(tree, c.Path))
	}
	return false, "the position is the start of " + strings.Join(names, " / ")
}

func checkRemote(u *vk.Unit, c remoteCase) *vk.Finding {
	eval := func(yaml bool) (verdict, string, string, *vk.Finding) {
		cc := c
		cc.YAML = yaml
		rootName, defsName, root, defs, faultPath, sitePath := cc.files()
		var rootText, defsText []byte
		if yaml {
			var err error
			if rootText, err = emitYAML(root, false); err != nil {
				return verdict{}, "", "", vk.F("harness", "emit: %v", err)
			}
			if defsText, err = emitYAML(defs, false); err != nil {
				return verdict{}, "", "", vk.F("harness", "emit: %v", err)
			}
		} else {
			rootText, defsText = emitJSON(root), emitJSON(defs)
		}
		ixR, err := indexDoc(rootText, root)
		if err != nil {
			return verdict{}, "", "", vk.F("harness", "index root: %v", err)
		}
		ixD, err := indexDoc(defsText, defs)
		if err != nil {
			return verdict{}, "", "", vk.F("harness", "index defs: %v", err)
		}
		if len(splitLines(defsText)) <= len(splitLines(rootText))+10 {
			return verdict{}, "", "", vk.F("harness", "the definitions file must be longer than the root file")
		}
		v := runRemote(rootName, defsName, rootText, defsText)
		if f := totality(v, map[bool]string{true: "YAML", false: "JSON"}[yaml], shape{Fault: "remote", Arg: c.Fault}); f != nil {
			return v, rootName, defsName, f
		}
		for i, l := range v.Locs {
			if l.Line == 0 || (l.Kind != "error" && l.Kind != "report") {
				continue
			}
			var (
				ix     *docIndex
				tree   *node
				text   []byte
				target []string
				which  string
			)
			switch {
			case strings.HasSuffix(l.File, defsName):
				ix, tree, text, target, which = ixD, defs, defsText, faultPath, "definitions"
			case strings.HasSuffix(l.File, rootName):
				ix, tree, text, target, which = ixR, root, rootText, sitePath, "root"
			default:
				return v, rootName, defsName, vk.F("position-names-unknown-file", "position #%d names file %q, the document consists of %q and %q; error: %s", i, l.File, rootName, defsName, clip(v.Err, 400))
			}
			u.Label("position-in:" + which)
			lines := splitLines(text)
			if l.Line > len(lines) || l.Col > len(lines[l.Line-1])+1 {
				return v, rootName, defsName, vk.F("position-outside-its-file", "position #%d is %s:%d:%d, but that file has %d lines (the other file is the one this position fits); error: %s",
					i, l.File, l.Line, l.Col, len(lines), clip(v.Err, 400))
			}
			ok, why := onChain(ix, tree, l, target)
			if !ok && which == "definitions" && c.Site == "through-definitions" {
				// the definitions file refers to the faulted schema itself: that site is on the way too
				ok, _ = onChain(ix, tree, l, []string{"components", "schemas", "Via", "properties", "inner"})
			}
			if !ok {
				return v, rootName, defsName, vk.F("position-in-wrong-file-or-node", "position #%d is %s:%d:%d (%s file): %s, which is not on the way to %s; fault %s in the definitions file, referred to from %s; error: %s",
					i, l.File, l.Line, l.Col, which, why, pointerOf(target), c.Fault, c.Site, clip(v.Err, 400))
			}
		}
		return v, rootName, defsName, nil
	}
	vj, rj, dj, f := eval(false)
	if f != nil {
		return f
	}
	vy, ry, dy, f := eval(true)
	if f != nil {
		return f
	}
	u.Label(fmt.Sprintf("outcome:%s@%s", vj.Class, vj.Stage))
	if vj.Class == "error" && c.Fault != "no-fault" {
		located := false
		for _, l := range vj.Locs {
			located = located || l.Line > 0
		}
		u.Label(fmt.Sprintf("located:%v", located))
		u.NonTrivial(c.Fault + "\x00" + c.Site)
		u.Sample(map[string]any{"case": c, "error": clip(vj.Err, 300)})
	}
	// both spellings of the pair agree
	if vj.Class != vy.Class || vj.Stage != vy.Stage {
		return vk.F("spellings-differ-outcome", "fault %s at %s: JSON pair %s@%s (%s), YAML pair %s@%s (%s)", c.Fault, c.Site, vj.Class, vj.Stage, clip(vj.Err, 300), vy.Class, vy.Stage, clip(vy.Err, 300))
	}
	norm := func(m, r, d string) string {
		m = stripPositions(m, "file://"+r, "file://"+d, r, d)
		m = strings.ReplaceAll(m, "defs.json", "defs.<ext>")
		return strings.ReplaceAll(m, "defs.yml", "defs.<ext>")
	}
	if a, b := norm(vj.Err, rj, dj), norm(vy.Err, ry, dy); a != b {
		return vk.F("spellings-differ-message", "fault %s at %s: messages differ beyond positions and file names:\n JSON: %s\n YAML: %s", c.Fault, c.Site, clip(vj.Err, 500), clip(vy.Err, 500))
	}
	if len(vj.Locs) == len(vy.Locs) {
		for i := range vj.Locs {
			fj := strings.HasSuffix(vj.Locs[i].File, dj)
			fy := strings.HasSuffix(vy.Locs[i].File, dy)
			if vj.Locs[i].Line > 0 && vy.Locs[i].Line > 0 && fj != fy {
				return vk.F("spellings-differ-file", "fault %s at %s: position #%d names %q in the JSON pair and %q in the YAML pair", c.Fault, c.Site, i, vj.Locs[i].File, vy.Locs[i].File)
			}
		}
	}
	return nil
}

func TestRemoteFaults(t *testing.T) {
	u := vk.New(t, "C11", "remote-faults")
	defer u.Close()
	if c, ok := vk.ReplayOnly[remoteCase](u); ok {
		u.Eval(1)
		if f := checkRemote(u, c); f != nil {
			u.Report(f, c)
		}
		return
	}
	if vk.InReplay() {
		return
	}
	u.SetExhaustive(true)
	shard, shards := vk.Shard()
	i := 0
	for _, f := range remoteFaults {
		for _, s := range remoteSites {
			i++
			if i%shards != shard {
				continue
			}
			u.Label("site:" + s)
			vk.Each(u, remoteCase{Fault: f.Name, Site: s}, func(c remoteCase) *vk.Finding { return checkRemote(u, c) })
		}
	}
}
