package c11

// Worker side and pool: the pipeline under test never runs in the process that
// decides the verdict. A worker is this very test binary re-executed with
// C11_WORKER=1; it reads one JSON request per line on stdin and answers with one
// JSON line on stdout. Exactly one request is in flight per worker, so a worker
// death (fatal error: stack overflow, out of memory, os.Exit inside the code
// under test) is attributed to its input without bisection, and confirmed by
// re-running the input alone in a fresh worker.

import (
	"bufio"
	"encoding/json"
	"fmt"
	"io"
	"os"
	"os/exec"
	"reflect"
	"runtime/debug"
	"strconv"
	"strings"
	"sync"
	"syscall"
	"time"
	"unsafe"

	"github.com/go-faster/yaml"
	"go.uber.org/multierr"

	"github.com/ogen-go/ogen"
	"github.com/ogen-go/ogen/gen"
	"github.com/ogen-go/ogen/gen/genfs"
	"github.com/ogen-go/ogen/location"
)

// ---- protocol ----------------------------------------------------------------

type request struct {
	Name   string `json:"name"`   // file name handed to location.NewFile
	Data   []byte `json:"data"`   // the document
	Strict bool   `json:"strict"` // false: IgnoreNotImplemented=["all"] (as the suite does for the big examples)
	// Slow (parent side only): the input belongs to the family known to need
	// tens of CPU seconds (1000-deep array/object nesting); budgets are 10x.
	Slow bool `json:"-"`
}

// locInfo is one piece of location information found in the returned error.
type locInfo struct {
	Kind string `json:"kind"` // "error" (location.Error), "report" (MultiError), "yaml-syntax", "yaml-unmarshal"
	File string `json:"file"`
	Line int    `json:"line"`
	Col  int    `json:"col"`
	Msg  string `json:"msg"`
}

type verdict struct {
	// Class: "ok", "error" (an error value was returned), "panic" (recovered),
	// and, set by the parent only: "died" (worker process ended), "watchdog".
	Class string    `json:"class"`
	Stage string    `json:"stage"` // "parse", "newgen", "write", "done"
	Err   string    `json:"err,omitempty"`
	Locs  []locInfo `json:"locs,omitempty"`
	Panic string    `json:"panic,omitempty"`
	Stack string    `json:"stack,omitempty"`
	MS    int64     `json:"ms"`
	CPUMS int64     `json:"cpu_ms"` // CPU time of the worker process spent on this input
	// parent-side diagnostics
	ExitCode int    `json:"exit_code,omitempty"`
	Stderr   string `json:"stderr,omitempty"`
	// Top is the innermost function of ogen (or of its YAML front end) on the
	// panic / fatal stack, taken from the unclipped text.
	Top string `json:"top,omitempty"`
}

// ---- the pipeline (runs in the worker, or directly inside the fuzz target) ----

func clip(s string, n int) string {
	if len(s) > n {
		return s[:n] + "…"
	}
	return s
}

// runPipeline is the code under test exactly as gen_test.go drives it:
// ogen.Parse → gen.NewGenerator → WriteSource(genfs.CheckFS{}, "api").
func runPipeline(req request) (v verdict) {
	start := time.Now()
	v.Stage = "parse"
	defer func() {
		if r := recover(); r != nil {
			v.Class = "panic"
			v.Panic = clip(fmt.Sprint(r), 600)
			st := string(debug.Stack())
			v.Top = topFrame(st, true)
			v.Stack = clip(st, 6000)
		}
		v.MS = time.Since(start).Milliseconds()
	}()
	fail := func(err error) verdict {
		v.Class = "error"
		v.Err = clip(err.Error(), 3000)
		v.Locs = collectLocs(err)
		return v
	}
	spec, err := ogen.Parse(req.Data)
	if err != nil {
		return fail(err)
	}
	v.Stage = "newgen"
	opt := gen.Options{
		Parser: gen.ParseOptions{
			// strict = ogen's defaults (no type inference, nothing ignored); otherwise the lenient
			// configuration the suite uses for the big examples
			InferSchemaType: !req.Strict,
			File:            location.NewFile(req.Name, req.Name, req.Data),
		},
	}
	if !req.Strict {
		opt.Generator.IgnoreNotImplemented = []string{"all"}
	}
	g, err := gen.NewGenerator(spec, opt)
	if err != nil {
		return fail(err)
	}
	v.Stage = "write"
	if err := g.WriteSource(genfs.CheckFS{}, "api"); err != nil {
		return fail(err)
	}
	v.Stage = "done"
	v.Class = "ok"
	return v
}

// multiReports reads the unexported report list of a location.MultiError.
func multiReports(me *location.MultiError) []location.Report {
	f := reflect.ValueOf(me).Elem().FieldByName("reports")
	if !f.IsValid() {
		return nil
	}
	rs, _ := reflect.NewAt(f.Type(), unsafe.Pointer(f.UnsafeAddr())).Elem().Interface().([]location.Report)
	return rs
}

// collectLocs walks the whole error tree (Unwrap() error and Unwrap() []error)
// outermost first and lists every piece of location information in it.
func collectLocs(err error) []locInfo {
	var out []locInfo
	seen := 0
	var walk func(e error)
	walk = func(e error) {
		if e == nil || seen > 200 {
			return
		}
		seen++
		switch x := e.(type) {
		case *location.Error:
			out = append(out, locInfo{Kind: "error", File: x.File.HumanName(), Line: x.Pos.Line, Col: x.Pos.Column, Msg: clip(fmt.Sprint(x.Err), 400)})
		case *location.MultiError:
			for _, r := range multiReports(x) {
				out = append(out, locInfo{Kind: "report", File: r.File.HumanName(), Line: r.Pos.Line, Col: r.Pos.Column, Msg: clip(r.Msg, 400)})
			}
		case *yaml.SyntaxError:
			out = append(out, locInfo{Kind: "yaml-syntax", Line: x.Line, Col: x.Column, Msg: clip(x.Msg, 400)})
		case *yaml.UnmarshalError:
			if x.Node != nil {
				out = append(out, locInfo{Kind: "yaml-unmarshal", Line: x.Node.Line, Col: x.Node.Column, Msg: clip(fmt.Sprint(x.Err), 400)})
			}
		case *yaml.TypeError:
			for _, sub := range multierr.Errors(x.Group) {
				walk(sub)
			}
			return
		}
		switch u := e.(type) {
		case interface{ Unwrap() error }:
			walk(u.Unwrap())
		case interface{ Unwrap() []error }:
			for _, sub := range u.Unwrap() {
				walk(sub)
			}
		}
	}
	walk(err)
	return out
}

// ---- worker main -----------------------------------------------------------------

const (
	exitMemoryCeiling = 97
	memCeilingBytes   = 3 << 30 // RSS ceiling of one worker
	// goroutine stack ceiling of pooled workers (Go's default is 1 GiB): a runaway
	// recursion dies quickly. The confirmation run uses Go's default, so that only
	// what kills the real tool counts (text/template gives up with an error at
	// depth 100 000, which needs more than 128 MiB but less than 1 GiB of stack).
	maxStackBytes = 128 << 20
)

func rssBytes() int64 {
	b, err := os.ReadFile("/proc/self/statm")
	if err != nil {
		return 0
	}
	f := strings.Fields(string(b))
	if len(f) < 2 {
		return 0
	}
	pages, _ := strconv.ParseInt(f[1], 10, 64)
	return pages * int64(os.Getpagesize())
}

func selfCPU() time.Duration {
	var ru syscall.Rusage
	if err := syscall.Getrusage(syscall.RUSAGE_SELF, &ru); err != nil {
		return 0
	}
	return time.Duration(ru.Utime.Nano() + ru.Stime.Nano())
}

func workerMain() {
	if os.Getenv("C11_MAXSTACK") != "default" {
		debug.SetMaxStack(maxStackBytes)
	}
	parent := os.Getppid()
	go func() {
		for {
			time.Sleep(20 * time.Millisecond)
			if os.Getppid() != parent {
				os.Exit(99) // orphaned
			}
			if r := rssBytes(); r > memCeilingBytes {
				fmt.Fprintf(os.Stderr, "C11-MEMORY-CEILING rss=%d\n", r)
				os.Exit(exitMemoryCeiling)
			}
		}
	}()
	in := bufio.NewReaderSize(os.Stdin, 1<<20)
	out := bufio.NewWriter(os.Stdout)
	for {
		line, err := in.ReadBytes('\n')
		if len(line) > 0 {
			var req request
			if jerr := json.Unmarshal(line, &req); jerr != nil {
				fmt.Fprintf(os.Stderr, "worker: bad request: %v\n", jerr)
				os.Exit(98)
			}
			c0 := selfCPU()
			v := runPipeline(req)
			v.CPUMS = (selfCPU() - c0).Milliseconds()
			b, _ := json.Marshal(v)
			out.Write(b)
			out.WriteByte('\n')
			out.Flush()
		}
		if err != nil {
			return
		}
	}
}

// ---- parent side -------------------------------------------------------------------

type tailBuf struct {
	mu  sync.Mutex
	buf []byte
}

func (t *tailBuf) Write(p []byte) (int, error) {
	t.mu.Lock()
	t.buf = append(t.buf, p...)
	if len(t.buf) > 1<<16 {
		// keep head (the fatal error line) and tail
		head := append([]byte{}, t.buf[:1<<13]...)
		t.buf = append(head, t.buf[len(t.buf)-(1<<15):]...)
	}
	t.mu.Unlock()
	return len(p), nil
}

func (t *tailBuf) String() string {
	t.mu.Lock()
	defer t.mu.Unlock()
	return string(t.buf)
}

type worker struct {
	cmd    *exec.Cmd
	stdin  io.WriteCloser
	stdout *bufio.Reader
	stderr *tailBuf
	lines  chan []byte
}

func startWorker() (*worker, error) { return startWorkerOpt(false) }

func startWorkerOpt(defaultStack bool) (*worker, error) {
	exe, err := os.Executable()
	if err != nil {
		return nil, err
	}
	cmd := exec.Command(exe, "-test.run", "^$")
	cmd.Env = append(os.Environ(), "C11_WORKER=1", "GOTRACEBACK=single", "GOMAXPROCS=2", "GOGC=400")
	if defaultStack {
		cmd.Env = append(cmd.Env, "C11_MAXSTACK=default")
	}
	if dir := os.Getenv("VERIF_SCRATCH"); dir != "" {
		cmd.Dir = dir
	}
	// a worker spinning in an endless loop must not outlive a parent that was
	// itself killed (test timeout): see also the getppid poll in workerMain
	cmd.SysProcAttr = &syscall.SysProcAttr{Pdeathsig: syscall.SIGKILL}
	stdin, err := cmd.StdinPipe()
	if err != nil {
		return nil, err
	}
	stdout, err := cmd.StdoutPipe()
	if err != nil {
		return nil, err
	}
	w := &worker{cmd: cmd, stdin: stdin, stdout: bufio.NewReaderSize(stdout, 1<<20), stderr: &tailBuf{}, lines: make(chan []byte, 1)}
	cmd.Stderr = w.stderr
	if err := cmd.Start(); err != nil {
		return nil, err
	}
	go func() {
		for {
			line, err := w.stdout.ReadBytes('\n')
			if len(line) > 0 && err == nil {
				w.lines <- line
			}
			if err != nil {
				close(w.lines)
				return
			}
		}
	}()
	return w, nil
}

func (w *worker) kill() {
	if w == nil || w.cmd == nil || w.cmd.Process == nil {
		return
	}
	_ = w.stdin.Close()
	_ = w.cmd.Process.Kill()
	_ = w.cmd.Wait()
}

// run sends one request; alive=false means the worker is gone (died or was
// killed by the watchdog) and must be replaced. budget is CPU time.
func (w *worker) run(req request, budget time.Duration) (v verdict, alive bool) {
	b, _ := json.Marshal(req)
	b = append(b, '\n')
	start := time.Now()
	if _, err := w.stdin.Write(b); err != nil {
		// the worker is already dead: report as died, the caller re-runs in a fresh one
		w.kill()
		return verdict{Class: "died", Stage: "send", Stderr: clip(w.stderr.String(), 4000)}, false
	}
	tick := time.NewTicker(200 * time.Millisecond)
	defer tick.Stop()
	cpu0 := cpuSeconds(w.cmd.Process.Pid)
	lastCPU, lastProgress := 0.0, time.Now()
	for {
		select {
		case line, ok := <-w.lines:
			if ok {
				if err := json.Unmarshal(line, &v); err == nil {
					return v, true
				}
				w.kill()
				return verdict{Class: "died", Stage: "protocol", Stderr: clip(string(line), 2000)}, false
			}
			// stdout closed: the process ended
			_ = w.stdin.Close()
			err := w.cmd.Wait()
			code := -1
			if ee, ok := err.(*exec.ExitError); ok {
				code = ee.ExitCode()
				if ws, ok := ee.Sys().(syscall.WaitStatus); ok && ws.Signaled() {
					code = 128 + int(ws.Signal())
				}
			} else if err == nil {
				code = 0
			}
			full := w.stderr.String()
			return verdict{Class: "died", Stage: "run", ExitCode: code, Stderr: clip(full, 6000), Top: topFrame(full, false), MS: time.Since(start).Milliseconds()}, false
		case <-tick.C:
			// The budget is CPU time of the worker, so that a loaded machine cannot
			// turn a slow input into a "hang"; a worker that makes no CPU progress at
			// all for stallWall is reported as well (deadlock).
			cpu := cpuSeconds(w.cmd.Process.Pid) - cpu0
			if cpu > lastCPU+0.02 {
				lastCPU, lastProgress = cpu, time.Now()
			}
			stalled := time.Since(lastProgress) > stallWall
			if cpu < budget.Seconds() && !stalled {
				continue
			}
			// ask the runtime for the stack of the running goroutine, then kill
			_ = w.cmd.Process.Signal(syscall.SIGQUIT)
			time.Sleep(300 * time.Millisecond)
			w.kill()
			stage := "cpu-budget"
			if stalled && cpu < budget.Seconds() {
				stage = "stalled"
			}
			full := w.stderr.String()
			return verdict{Class: "watchdog", Stage: stage, Stderr: clip(full, 6000), Top: topFrame(full, false), MS: time.Since(start).Milliseconds(), CPUMS: int64(cpu * 1000)}, false
		}
	}
}

const stallWall = 180 * time.Second

// cpuSeconds is utime+stime of a process (clock ticks are 1/100 s on Linux).
func cpuSeconds(pid int) float64 {
	b, err := os.ReadFile(fmt.Sprintf("/proc/%d/stat", pid))
	if err != nil {
		return 0
	}
	s := string(b)
	if i := strings.LastIndexByte(s, ')'); i >= 0 {
		s = s[i+1:]
	}
	f := strings.Fields(s)
	if len(f) < 13 {
		return 0
	}
	ut, _ := strconv.ParseFloat(f[11], 64)
	st, _ := strconv.ParseFloat(f[12], 64)
	return (ut + st) / 100
}

// pool hands out workers; a worker that died is replaced by a fresh one.
type pool struct {
	mu   sync.Mutex
	idle []*worker
}

var workers = &pool{}

func (p *pool) get() (*worker, error) {
	p.mu.Lock()
	if n := len(p.idle); n > 0 {
		w := p.idle[n-1]
		p.idle = p.idle[:n-1]
		p.mu.Unlock()
		return w, nil
	}
	p.mu.Unlock()
	return startWorker()
}

func (p *pool) put(w *worker) {
	p.mu.Lock()
	p.idle = append(p.idle, w)
	p.mu.Unlock()
}

func (p *pool) closeAll() {
	p.mu.Lock()
	for _, w := range p.idle {
		w.kill()
	}
	p.idle = nil
	p.mu.Unlock()
}

// budgets, in CPU seconds of the worker (the property bounds time; typical is
// < 0.1 s, the largest corpus files a few seconds; only the separately labelled
// deep family needs tens of seconds).
func firstBudget(req request) time.Duration {
	b := 30*time.Second + time.Duration(len(req.Data)/1024)*250*time.Millisecond
	if req.Slow {
		b *= 10
	}
	return b
}

func confirmBudget(req request) time.Duration { return 6 * firstBudget(req) }

// execute runs one document in an isolated worker and returns the verdict.
// A death or a watchdog hit is re-run alone in a fresh worker (with the larger
// budget): verdict.Class is "died"/"watchdog" only when it confirmed; an
// unconfirmed one returns the second verdict with unconfirmed != "".
func execute(req request) (v verdict, unconfirmed string) {
	w, err := workers.get()
	if err != nil {
		panic(fmt.Sprintf("c11 harness: cannot start worker: %v", err))
	}
	v, alive := w.run(req, firstBudget(req))
	if alive {
		workers.put(w)
		return v, ""
	}
	first := v
	w2, err := startWorkerOpt(true)
	if err != nil {
		panic(fmt.Sprintf("c11 harness: cannot start worker: %v", err))
	}
	v2, alive2 := w2.run(req, confirmBudget(req))
	if alive2 {
		w2.kill() // not pooled: it runs with the default stack ceiling
		return v2, fmt.Sprintf("first run: %s (exit %d, %d ms); re-run alone: %s in %d ms", first.Class, first.ExitCode, first.MS, v2.Class, v2.MS)
	}
	if v2.Class != first.Class && first.Stage != "send" {
		v2.Stderr = "first run: " + first.Class + "\n" + v2.Stderr
	}
	return v2, ""
}
