package c11

// Single-fault mutations of an ordered tree.

import (
	"fmt"
	"strconv"
	"strings"
)

// site is one place of the base document where a fault can be put.
type site struct {
	Path []int // index path of the entry (value node); root = empty
	Key  bool  // the fault is put on the key of the entry
}

// siteIndex lists, per fault kind, the eligible sites of a base document.
type siteIndex struct {
	byFault map[string][]site
	nodes   int
}

var faultKinds = []string{"delete", "retype", "null", "empty", "escape", "dangling", "cycle", "dupname", "num", "deep", "code-key", "code-null", "code-dup"}

var numericKeywords = map[string]bool{
	"minimum": true, "maximum": true, "exclusiveMinimum": true, "exclusiveMaximum": true, "multipleOf": true,
	"minLength": true, "maxLength": true, "minItems": true, "maxItems": true, "minProperties": true, "maxProperties": true,
}

var integerKeywords = map[string]bool{
	"minLength": true, "maxLength": true, "minItems": true, "maxItems": true, "minProperties": true, "maxProperties": true,
}

func collectSites(root *node) *siteIndex {
	ix := &siteIndex{byFault: map[string][]site{}}
	add := func(f string, p []int, key bool) {
		ix.byFault[f] = append(ix.byFault[f], site{Path: append([]int{}, p...), Key: key})
	}
	opIDs := 0
	var count func(n *node)
	count = func(n *node) {
		for i, k := range n.Kids {
			if n.K == kMap && n.Keys[i] == "operationId" && k.K == kStr {
				opIDs++
			}
			count(k)
		}
	}
	count(root)
	// parentKey: key under which the node sits (or "" in a sequence); grandKey: key of the parent container
	var walk func(n *node, path []int, parent *node, parentKey, grandKey string)
	walk = func(n *node, path []int, parent *node, parentKey, grandKey string) {
		ix.nodes++
		if parent != nil {
			add("delete", path, false)
		}
		add("retype", path, false)
		if n.K != kNull {
			add("null", path, false)
		}
		if !(n.K == kStr && n.S == "") {
			add("empty", path, false)
		}
		if parent != nil && parent.K == kMap {
			if parentKey != "" {
				add("empty", path, true)
			}
			if len(parent.Kids) >= 2 {
				add("dupname", path, true)
			}
			if len(path) == 2 && grandKey == "paths" {
				add("escape", path, true)
			}
			// an entry of a `responses` mapping keyed by a status code
			if grandKey == "responses" && codeLikeKey.MatchString(parentKey) {
				add("code-key", path, true)
				add("code-null", path, false)
				add("code-dup", path, true)
			}
		}
		if n.K == kStr && parentKey == "$ref" && parent != nil && parent.K == kMap {
			add("dangling", path, false)
			add("cycle", path, false)
		}
		schemaish := n.K == kMap && (parentKey == "schema" || parentKey == "items" || parentKey == "additionalProperties" ||
			grandKey == "properties" || grandKey == "schemas" || grandKey == "patternProperties" ||
			(parent != nil && parent.K == kSeq && (grandKey == "allOf" || grandKey == "oneOf" || grandKey == "anyOf")))
		if n.K == kMap && parent != nil {
			add("dangling", path, false)
			if schemaish {
				add("cycle", path, false)
				add("deep", path, false)
			}
		}
		if n.K == kNum || ((n.K == kStr || n.K == kBool) && numericKeywords[parentKey]) {
			add("num", path, false)
		}
		// duplicate a name held in a value
		if n.K == kStr || n.K == kNum {
			switch {
			case parentKey == "operationId" && opIDs >= 2:
				add("dupname", path, false)
			case parent != nil && parent.K == kSeq && len(parent.Kids) >= 2:
				add("dupname", path, false)
			}
		}
		for i, k := range n.Kids {
			pk := ""
			if n.K == kMap {
				pk = n.Keys[i]
			}
			walk(k, append(path, i), n, pk, parentKey)
		}
	}
	walk(root, nil, nil, "", "")
	// dupname for `name`-like members of sequence items is found in a second pass (needs the sibling)
	var walk2 func(n *node, path []int)
	walk2 = func(n *node, path []int) {
		if n.K == kSeq && len(n.Kids) >= 2 {
			for i, item := range n.Kids {
				if item.K != kMap {
					continue
				}
				for j, key := range item.Keys {
					if item.Kids[j].K != kStr || (key != "name" && key != "operationId" && key != "url") {
						continue
					}
					if sib := siblingWith(n, i, key); sib >= 0 {
						add("dupname", append(append([]int{}, path...), i, j), false)
					}
				}
			}
		}
		for i, k := range n.Kids {
			walk2(k, append(path, i))
		}
	}
	walk2(root, nil)
	return ix
}

func siblingWith(seq *node, self int, key string) int {
	for d := 1; d < len(seq.Kids); d++ {
		i := (self + d) % len(seq.Kids)
		if v := seq.Kids[i].get(key); v != nil && v.K == kStr {
			return i
		}
	}
	return -1
}

// variants lists the arguments of a fault kind at a site.
func variants(root *node, fault string, s site) []string {
	n := root.at(s.Path)
	if n == nil {
		return nil
	}
	switch fault {
	case "delete", "null":
		return []string{""}
	case "empty":
		return []string{""}
	case "retype":
		switch n.K {
		case kMap:
			return []string{"seq-wrap", "str", "seq-empty", "num", "bool"}
		case kSeq:
			return []string{"map-wrap", "str", "map-empty", "num"}
		default:
			return []string{"map-wrap", "seq-wrap", "map-empty", "seq-empty"}
		}
	case "escape":
		// the last three are well-formed (controls: must not fail because of the escape)
		return []string{"%", "%0a%", "%zz", "%0a%zz", "%e4%b8", "pre:%", "pre:%0a%", "%%", "%2", "%2f%", "%2F", "%25", "%e4%b8%96"}
	case "code-key":
		// invalid or out-of-range response codes; the last two are valid controls
		return []string{"600", "99", "1000", "0", "999", "-1", "99999999999999999999", "6XX", "0200", "20",
			// range patterns whose class character is not 1-5
			"0XX", "-XX", " XX", "+XX", "9XX", "XXX", "/XX", "1xx", "10X", "XX", "éXX",
			"418", "2XX"}
	case "code-null", "code-dup":
		return []string{""}
	case "dangling":
		if n.K == kMap {
			return []string{"replace-missing"}
		}
		return []string{"missing", "suffix", "empty-frag", "no-hash", "bad-escape", "tilde", "slash-end"}
	case "cycle":
		if n.K == kMap {
			return []string{"replace-self", "allOf-self", "oneOf-self", "anyOf-self", "replace-root", "items-allOf-self",
				// the schema reaches itself only through an ANONYMOUS sum nested in a sum, beside honest variants
				"oneOf-in-oneOf-self", "anyOf-in-oneOf-self", "oneOf-in-anyOf-self", "allOf-in-oneOf-self", "oneOf-in-allOf-self"}
		}
		return []string{"self", "parent", "root", "grandparent"}
	case "dupname":
		if s.Key {
			return []string{"next", "prev"}
		}
		return []string{""}
	case "num":
		// "yaml:<YAML spelling>=<JSON spelling>": number spellings that only YAML has (no leading zero,
		// explicit plus sign, bare trailing point); the JSON spelling writes the same number its own way
		return []string{"-1", "1e400", "99999999999999999999", "x", "1.5", "-0", "1e-400", "9223372036854775808", "-9223372036854775809", "0", "1e308", "0.1e1",
			"yaml:.5=0.5", "yaml:+5=5", "yaml:5.=5", "yaml:+.5e1=5", "yaml:-.25=-0.25"}
	case "deep":
		return deepVariants
	}
	return nil
}

// deepVariants: the regular family is 40 deep (array/object nesting costs about
// depth^3: 40 deep ≈ 0.3 s, 200 deep ≈ 25 s, 1000 deep ≈ 25-50 s until the depth
// limit refuses it); allOf/oneOf nesting is cheap at any depth. The expensive
// members are a separately labelled family (deepExpensive), a handful per run.
var (
	deepVariants  = []string{"array:40", "object:40", "allOf:40", "oneOf:40", "addprops:40", "allOf:1000", "oneOf:1000"}
	deepExpensive = []string{"array:1000", "object:1000", "addprops:1000", "array:200"}
)

// applied is the result of putting one fault into a base tree.
type applied struct {
	Tree   *node
	Fault  []int    // path (in the mutated tree) of the faulted node; for a deletion: its former parent
	Parts  [][]int  // other participating nodes (the duplicated sibling, …), paths in the mutated tree
	Target []string // pointer tokens under which the faulted node was reachable in the base document
	Names  []string // names the fault removes/introduces (for by-name references elsewhere)
	Label  string   // family label for the distribution
}

func deepSchema(kindArg string) *node {
	parts := strings.SplitN(kindArg, ":", 2)
	depth, _ := strconv.Atoi(parts[1])
	n := mapping("type", str("string"))
	for i := 0; i < depth; i++ {
		switch parts[0] {
		case "array":
			n = mapping("type", str("array"), "items", n)
		case "object":
			n = mapping("type", str("object"), "properties", mapping("a", n))
		case "allOf":
			n = mapping("allOf", sequence(n))
		case "oneOf":
			n = mapping("oneOf", sequence(n, mapping("type", str("integer"))))
		case "addprops":
			n = mapping("type", str("object"), "additionalProperties", n)
		}
	}
	return n
}

// apply puts the fault into a copy of base. ok=false: not applicable here.
func apply(base *node, fault, arg string, s site) (a applied, ok bool) {
	root := base.clone()
	a.Tree = root
	a.Label = fault
	a.Target = base.keyPath(s.Path)
	var parent *node
	idx := -1
	if len(s.Path) > 0 {
		parent = root.at(s.Path[:len(s.Path)-1])
		idx = s.Path[len(s.Path)-1]
		if parent == nil || idx >= len(parent.Kids) {
			return a, false
		}
	}
	n := root.at(s.Path)
	if n == nil {
		return a, false
	}
	a.Fault = append([]int{}, s.Path...)
	set := func(nn *node) {
		if parent == nil {
			// the root is replaced in place
			*root = *nn
			return
		}
		parent.Kids[idx] = nn
	}
	keyOf := func() string {
		if parent != nil && parent.K == kMap {
			return parent.Keys[idx]
		}
		return ""
	}
	if k := keyOf(); k != "" {
		a.Names = append(a.Names, k)
	}
	if n.K == kStr && n.S != "" {
		a.Names = append(a.Names, n.S)
	}
	collectNames(n, keyOf(), &a.Names, 4000)

	// Faults on response-code entries. The faulted entry is never left as the
	// FIRST key of its mapping (in block YAML a mapping starts where its first
	// key starts, which would hide a wrong key position): it is swapped with its
	// successor, or a valid response is put in front of a lone entry.
	if fault == "code-key" || fault == "code-null" || fault == "code-dup" {
		if parent == nil || parent.K != kMap {
			return a, false
		}
		parentPath := append([]int{}, s.Path[:len(s.Path)-1]...)
		offFirst := func() {
			if idx != 0 {
				return
			}
			if len(parent.Kids) >= 2 {
				parent.Keys[0], parent.Keys[1] = parent.Keys[1], parent.Keys[0]
				parent.Kids[0], parent.Kids[1] = parent.Kids[1], parent.Kids[0]
			} else {
				front := "default"
				if parent.Keys[0] == "default" {
					front = "201"
				}
				parent.Keys = append([]string{front}, parent.Keys...)
				parent.Kids = append([]*node{mapping("description", str("c11"))}, parent.Kids...)
			}
			idx = 1
		}
		switch fault {
		case "code-key":
			if parent.Keys[idx] == arg {
				return a, false
			}
			for _, k := range parent.Keys {
				if k == arg {
					return a, false // would be a duplicate, that is code-dup's business
				}
			}
			offFirst()
			parent.Keys[idx] = arg
			a.Names = append(a.Names, arg)
		case "code-null":
			if n.K == kNull {
				return a, false
			}
			offFirst()
			parent.Kids[idx] = null()
		case "code-dup":
			// the same code twice: a copy of the entry is appended (so the second occurrence is not first)
			parent.Keys = append(parent.Keys, parent.Keys[idx])
			parent.Kids = append(parent.Kids, n.clone())
			a.Parts = append(a.Parts, append(append([]int{}, parentPath...), idx))
			idx = len(parent.Kids) - 1
		}
		a.Fault = append(parentPath, idx)
		a.Label = fault
		return a, true
	}

	if s.Key {
		if parent == nil || parent.K != kMap {
			return a, false
		}
		old := parent.Keys[idx]
		switch fault {
		case "empty":
			if old == "" {
				return a, false
			}
			parent.Keys[idx] = ""
			a.Label = "empty-key"
		case "escape":
			if strings.HasPrefix(arg, "pre:") {
				ins := strings.TrimPrefix(arg, "pre:")
				at := 1
				if at > len(old) {
					at = len(old)
				}
				parent.Keys[idx] = old[:at] + ins + old[at:]
			} else {
				parent.Keys[idx] = old + arg
			}
		case "dupname":
			if len(parent.Kids) < 2 {
				return a, false
			}
			j := (idx + 1) % len(parent.Kids)
			if arg == "prev" {
				j = (idx - 1 + len(parent.Kids)) % len(parent.Kids)
			}
			if parent.Keys[j] == old {
				return a, false
			}
			parent.Keys[idx] = parent.Keys[j]
			a.Parts = append(a.Parts, append(append([]int{}, s.Path[:len(s.Path)-1]...), j))
			a.Names = append(a.Names, parent.Keys[j])
			a.Label = "dup-key"
		default:
			return a, false
		}
		return a, true
	}

	switch fault {
	case "delete":
		if parent == nil {
			return a, false
		}
		parent.Kids = append(parent.Kids[:idx:idx], parent.Kids[idx+1:]...)
		if parent.K == kMap {
			parent.Keys = append(parent.Keys[:idx:idx], parent.Keys[idx+1:]...)
		}
		a.Fault = append([]int{}, s.Path[:len(s.Path)-1]...)
	case "null":
		if n.K == kNull {
			return a, false
		}
		set(null())
	case "empty":
		if n.K == kStr && n.S == "" {
			return a, false
		}
		set(str(""))
	case "retype":
		orig := n.clone()
		var nn *node
		switch arg {
		case "map-empty":
			nn = mapping()
		case "map-wrap":
			nn = mapping("x", orig)
		case "seq-empty":
			nn = sequence()
			nn.Kids = []*node{}
		case "seq-wrap":
			nn = sequence(orig)
		case "str":
			nn = str("x")
		case "num":
			nn = num("1")
		case "bool":
			nn = boolean(true)
		default:
			return a, false
		}
		if nn.K == n.K {
			return a, false
		}
		if (n.K == kMap && nn.K == kSeq) || (n.K == kSeq && nn.K == kMap) {
			a.Label = "wrong-kind"
		}
		set(nn)
	case "dangling":
		switch {
		case n.K == kMap && arg == "replace-missing":
			set(mapping("$ref", str("#/components/schemas/C11Missing")))
		case n.K == kStr:
			var v string
			switch arg {
			case "missing":
				v = "#/components/schemas/C11Missing"
			case "suffix":
				v = n.S + "X"
			case "empty-frag":
				v = "#/"
			case "no-hash":
				v = strings.TrimPrefix(n.S, "#")
			case "bad-escape":
				v = n.S + "%zz"
			case "tilde":
				v = n.S + "~"
			case "slash-end":
				v = n.S + "/"
			default:
				return a, false
			}
			if v == n.S {
				return a, false
			}
			set(str(v))
		default:
			return a, false
		}
	case "cycle":
		own := base.keyPath(s.Path)
		switch {
		case n.K == kMap:
			self := mapping("$ref", str(pointerOf(own)))
			switch arg {
			case "replace-self":
				set(self)
			case "replace-root":
				set(mapping("$ref", str("#")))
			case "allOf-self", "oneOf-self", "anyOf-self":
				set(mapping(strings.TrimSuffix(arg, "-self"), sequence(self)))
			case "oneOf-in-oneOf-self", "anyOf-in-oneOf-self", "oneOf-in-anyOf-self", "allOf-in-oneOf-self", "oneOf-in-allOf-self":
				parts := strings.Split(strings.TrimSuffix(arg, "-self"), "-in-")
				inner := mapping(parts[0], sequence(self, mapping("type", str("integer"))))
				set(mapping(parts[1], sequence(inner, mapping("type", str("string")))))
			case "items-allOf-self":
				set(mapping("type", str("array"), "items", mapping("allOf", sequence(self))))
			default:
				return a, false
			}
		case n.K == kStr:
			// own = …/X/$ref ; the object holding the $ref is own[:len-1]
			up := 1
			switch arg {
			case "self":
			case "parent":
				up = 2
			case "grandparent":
				up = 3
			case "root":
				up = len(own)
			default:
				return a, false
			}
			if up > len(own) {
				return a, false
			}
			v := pointerOf(own[:len(own)-up])
			if v == n.S {
				return a, false
			}
			set(str(v))
		default:
			return a, false
		}
	case "dupname":
		switch {
		case keyOf() == "operationId":
			other := findOther(root, "operationId", s.Path)
			if other == nil {
				// maybe a sequence item sibling
				return dupFromSibling(root, a, s)
			}
			if root.at(other).S == n.S {
				return a, false
			}
			set(str(root.at(other).S))
			a.Parts = append(a.Parts, other)
			a.Names = append(a.Names, root.at(other).S)
		case parent != nil && parent.K == kSeq:
			j := (idx + 1) % len(parent.Kids)
			sib := parent.Kids[j]
			if sib.K != kStr && sib.K != kNum {
				return a, false
			}
			if sib.K == n.K && sib.S == n.S {
				return a, false
			}
			set(sib.clone())
			a.Parts = append(a.Parts, append(append([]int{}, s.Path[:len(s.Path)-1]...), j))
			a.Names = append(a.Names, sib.S)
		default:
			return dupFromSibling(root, a, s)
		}
		a.Label = "dup-value"
	case "num":
		var nn *node
		if arg == "x" {
			nn = str("x")
		} else if ys, js, ok := strings.Cut(strings.TrimPrefix(arg, "yaml:"), "="); ok && strings.HasPrefix(arg, "yaml:") {
			nn = num(js)
			nn.YS = ys
		} else {
			nn = num(arg)
		}
		if nn.K == n.K && nn.S == n.S && nn.YS == "" {
			return a, false
		}
		set(nn)
		if integerKeywords[keyOf()] {
			a.Label = "num-integer-keyword"
		} else if numericKeywords[keyOf()] {
			a.Label = "num-keyword"
		} else {
			a.Label = "num-other"
		}
	case "deep":
		if n.K != kMap {
			return a, false
		}
		set(deepSchema(arg))
		a.Label = "deep-" + arg[strings.IndexByte(arg, ':')+1:]
	default:
		return a, false
	}
	return a, true
}

// nameHolders: maps whose keys are user-chosen names that other parts of the
// document refer to by name.
var nameHolders = map[string]bool{
	"schemas": true, "responses": true, "parameters": true, "examples": true, "requestBodies": true, "headers": true,
	"securitySchemes": true, "links": true, "callbacks": true, "pathItems": true, "properties": true, "variables": true,
	"mapping": true, "scopes": true, "paths": true, "webhooks": true, "encoding": true,
}

// collectNames lists the names defined or used inside a (faulted) subtree:
// keys of name-holding maps, name-like members, items of required/tags lists,
// keys of security requirements.
func collectNames(n *node, parentKey string, out *[]string, budget int) {
	var walk func(n *node, parentKey, grandKey string)
	walk = func(n *node, parentKey, grandKey string) {
		if budget <= 0 || n == nil {
			return
		}
		budget--
		switch n.K {
		case kMap:
			for i, k := range n.Keys {
				if nameHolders[parentKey] || grandKey == "security" {
					*out = append(*out, k)
				}
				walk(n.Kids[i], k, parentKey)
			}
		case kSeq:
			for _, k := range n.Kids {
				walk(k, "", parentKey)
			}
		case kStr:
			switch {
			case n.S == "":
			case parentKey == "name" || parentKey == "operationId" || parentKey == "propertyName" || parentKey == "operationRef":
				*out = append(*out, n.S)
			case parentKey == "" && (grandKey == "required" || grandKey == "tags"):
				*out = append(*out, n.S)
			}
		}
	}
	walk(n, parentKey, "")
}

// dupFromSibling: the target is member `key` of an item of a sequence; copy the
// same member of a sibling item (duplicate parameter name, tag name, server url).
func dupFromSibling(root *node, a applied, s site) (applied, bool) {
	if len(s.Path) < 2 {
		return a, false
	}
	seqPath := s.Path[:len(s.Path)-2]
	seq := root.at(seqPath)
	item := root.at(s.Path[:len(s.Path)-1])
	if seq == nil || seq.K != kSeq || item == nil || item.K != kMap {
		return a, false
	}
	i, j := s.Path[len(s.Path)-2], s.Path[len(s.Path)-1]
	key := item.Keys[j]
	sib := siblingWith(seq, i, key)
	if sib < 0 {
		return a, false
	}
	sv := seq.Kids[sib].get(key)
	if sv.S == item.Kids[j].S {
		return a, false
	}
	item.Kids[j] = str(sv.S)
	// duplicate parameters are identified by (name, in): copy `in` as well when both have one
	if key == "name" {
		if in := seq.Kids[sib].get("in"); in != nil && in.K == kStr {
			for k, kk := range item.Keys {
				if kk == "in" {
					item.Kids[k] = str(in.S)
				}
			}
		}
	}
	a.Fault = append([]int{}, s.Path[:len(s.Path)-1]...) // the item as a whole is the duplicate
	a.Parts = append(a.Parts, append(append([]int{}, seqPath...), sib))
	a.Names = append(a.Names, sv.S)
	a.Label = "dup-value"
	return a, true
}

// findOther returns the path of another scalar member named key (document order, the next one cyclically).
func findOther(root *node, key string, self []int) []int {
	var all [][]int
	var walk func(n *node, path []int)
	walk = func(n *node, path []int) {
		for i, k := range n.Kids {
			p := append(path, i)
			if n.K == kMap && n.Keys[i] == key && k.K == kStr {
				all = append(all, append([]int{}, p...))
			}
			walk(k, p)
		}
	}
	walk(root, nil)
	for i, p := range all {
		if fmt.Sprint(p) == fmt.Sprint(self) {
			if len(all) < 2 {
				return nil
			}
			return all[(i+1)%len(all)]
		}
	}
	return nil
}
