package c11

import (
	"encoding/json"
	"fmt"
	"os"
	"path/filepath"
	"testing"
)

// TestDumpCase is a triage aid, not a unit: with C11_CASE='<case json of a
// mutants replay file>' it writes both spellings of the mutant to C11_DUMP_DIR
// (default: the temp dir), runs them and prints the verdicts and the labels.
//
//	go test -c -o /tmp/c11.test ./checks/c11 && C11_CASE='{"base":…}' /tmp/c11.test -test.run TestDumpCase -test.v
func TestDumpCase(t *testing.T) {
	cs := os.Getenv("C11_CASE")
	if cs == "" {
		t.Skip("set C11_CASE")
	}
	var c mutCase
	if err := json.Unmarshal([]byte(cs), &c); err != nil {
		t.Fatal(err)
	}
	base, why := c.baseTree()
	if base == nil {
		t.Fatal(why)
	}
	a, ok := apply(base, c.Fault, c.Arg, site{Path: c.Path, Key: c.Key})
	if !ok {
		t.Fatal("fault not applicable at this site")
	}
	dir := os.Getenv("C11_DUMP_DIR")
	if dir == "" {
		dir = os.TempDir()
	}
	j := emitJSON(a.Tree)
	y, _ := emitYAML(a.Tree, c.PlainKeys)
	_ = os.WriteFile(filepath.Join(dir, jsonName), j, 0o644)
	_ = os.WriteFile(filepath.Join(dir, yamlName), y, 0o644)
	vj, _ := execute(request{Name: jsonName, Data: j, Strict: c.Strict})
	vy, _ := execute(request{Name: yamlName, Data: y, Strict: c.Strict})
	fmt.Printf("fault %s(%s) at %s; mutated path %v; files in %s\n", c.Fault, c.Arg, pointerOf(base.keyPath(c.Path)), a.Fault, dir)
	fmt.Printf("JSON: %s@%s top=%s %s\n      %+v\n", vj.Class, vj.Stage, vj.Top, vj.Err, vj.Locs)
	fmt.Printf("YAML: %s@%s top=%s %s\n      %+v\n", vy.Class, vy.Stage, vy.Top, vy.Err, vy.Locs)
	if vj.Stderr != "" {
		fmt.Printf("stderr of the JSON run:\n%s\n", vj.Stderr)
	}
	o := evalMutant(c)
	fmt.Printf("labels=%v\nfinding=%+v\n", o.labels, o.finding)
}
