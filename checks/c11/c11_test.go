// Package c11 decides property C11 (the generator is total: any input document
// yields output or a located diagnostic).
//
// Units:
//
//	mutants  structure-aware single-fault mutants of the corpus specs, each in a
//	         JSON and a YAML spelling; oracle A (totality) and oracle B (positions:
//	         inside the document, attributable to the fault, equal for both spellings)
//	bytes    byte-level mutations of corpus files and negative fixtures; oracle A
//	fuzz     seed corpus of the native fuzz target FuzzPipeline; oracle A
//
// The pipeline (ogen.Parse → gen.NewGenerator → WriteSource(genfs.CheckFS{}))
// always runs in worker subprocesses (see worker_test.go).
package c11

import (
	"fmt"
	"hash/fnv"
	"os"
	"path/filepath"
	"regexp"
	"sort"
	"strings"
	"sync"
	"testing"

	yaml3 "gopkg.in/yaml.v3"
	"pgregory.net/rapid"

	"verif/internal/vk"
)

const (
	jsonName = "c11-mutant.json"
	yamlName = "c11-mutant.yaml"
)

// mutCase identifies one mutant: base document, site, fault. It is replayable
// as long as the corpus file exists (regression cases carry their base inline).
type mutCase struct {
	Base   string `json:"base"`             // path under $VERIF_REPO/_testdata
	Inline string `json:"inline,omitempty"` // base document given inline instead
	Path   []int  `json:"path"`             // index path of the faulted entry in the base tree
	Key    bool   `json:"key,omitempty"`    // the fault is put on the entry's key
	Fault  string `json:"fault"`
	Arg    string `json:"arg,omitempty"`
	Strict bool   `json:"strict,omitempty"` // true: default options; false: IgnoreNotImplemented=all
	// PlainKeys: the YAML spelling writes response-code keys unquoted (`200:` is
	// an !!int key, `4XX:` a plain string), as real specs do; otherwise quoted.
	PlainKeys bool `json:"plain_keys,omitempty"`
}

func (c mutCase) id() string {
	b := c.Base
	if c.Inline != "" {
		h := fnv.New64a()
		h.Write([]byte(c.Inline))
		b = fmt.Sprintf("inline-%x", h.Sum64())
	}
	return fmt.Sprintf("%s|%v|%v|%s|%s|%v|%v", b, c.Path, c.Key, c.Fault, c.Arg, c.Strict, c.PlainKeys)
}

// ---- base outcomes (what the unmutated document does) ------------------------------------

type baseOutcome struct {
	v verdict
}

var (
	baseMu    sync.Mutex
	baseCache = map[string]*baseOutcome{}
)

func baseVerdict(key string, tree *node, strict bool) verdict {
	k := fmt.Sprintf("%s|%v", key, strict)
	baseMu.Lock()
	o := baseCache[k]
	baseMu.Unlock()
	if o != nil {
		return o.v
	}
	v, _ := execute(request{Name: jsonName, Data: emitJSON(tree), Strict: strict})
	baseMu.Lock()
	baseCache[k] = &baseOutcome{v: v}
	baseMu.Unlock()
	return v
}

var (
	inlineMu    sync.Mutex
	inlineCache = map[string]*node{}
)

func (c mutCase) baseTree() (*node, string) {
	if c.Inline != "" {
		inlineMu.Lock()
		defer inlineMu.Unlock()
		if t, ok := inlineCache[c.Inline]; ok {
			return t, ""
		}
		var doc yaml3.Node
		if err := yaml3.Unmarshal([]byte(c.Inline), &doc); err != nil {
			return nil, "inline base does not parse"
		}
		t, ok := fromYAML(&doc, 0)
		if !ok {
			return nil, "inline base not expressible"
		}
		inlineCache[c.Inline] = t
		return t, ""
	}
	loadCorpus()
	b := corpusByRel[c.Base]
	if b == nil {
		return nil, "base file not in the corpus"
	}
	t := b.Tree()
	if t == nil {
		return nil, b.reason
	}
	return t, ""
}

// ---- evaluation of one mutant ------------------------------------------------------------

type outcome struct {
	unlocated  string // shape of an error message that carries no position at all
	finding    *vk.Finding
	labels     []string
	nontrivial bool
	notes      []string
	sample     any
}

func (o *outcome) label(format string, args ...any) {
	o.labels = append(o.labels, fmt.Sprintf(format, args...))
}

// precise: faults whose new value is invalid IN ITSELF (another kind, a broken
// escape in a key, a non-number or an out-of-range literal where an unsigned
// integer is required): the offending node is beyond doubt. Faults that keep a
// valid kind ("" for a string, 0 or -1 for minimum) only break relations
// (default ∈ enum, minLength ≤ maxLength, name used by a path template) and
// are legitimately reported at the other end of the relation.
func precise(label, arg string) bool {
	switch label {
	case "retype", "wrong-kind", "escape":
		return true
	case "num-integer-keyword":
		switch arg {
		// (9223372036854775808 = 2^63 is a valid value of these unsigned keywords: it can only be wrong
		// in relation to a sibling bound, and then the schema object that holds both is the offending node)
		case "x", "1e400", "99999999999999999999", "-9223372036854775809", "-1", "1.5":
			return true
		}
	case "num-keyword":
		return arg == "x"
	}
	return false
}

// nameLike: the faulted value is a name that other places refer to (a parameter
// name used by the path template, an operationId, a reference): breaking it is
// legitimately noticed where the name is used.
func nameLike(target []string) bool {
	if len(target) == 0 {
		return false
	}
	switch target[len(target)-1] {
	case "name", "operationId", "$ref", "operationRef", "propertyName":
		return true
	}
	for _, k := range target {
		if k == "mapping" || k == "security" || k == "required" || k == "tags" {
			return true
		}
	}
	return false
}

// unattributedIsViolation: positions that no acceptance rule explains are
// violations when the unmutated base passes (the fault is then the only cause).
const unattributedIsViolation = true

func evalMutant(c mutCase) (o outcome) {
	base, why := c.baseTree()
	if base == nil {
		o.label("skipped:%s", why)
		return o
	}
	a, ok := apply(base, c.Fault, c.Arg, site{Path: c.Path, Key: c.Key})
	if !ok {
		o.label("inapplicable")
		return o
	}
	o.label("fault:%s", a.Label)
	jtext := emitJSON(a.Tree)
	ixJ, err := indexDoc(jtext, a.Tree)
	if err != nil {
		o.finding = vk.F("harness-json-emitter", "%v", err)
		return o
	}
	// labels of the key style (what the JSON-vs-YAML clause can see)
	underResponses := false
	for _, k := range a.Target {
		underResponses = underResponses || k == "responses"
	}
	anyInt, chainInt := hasPlainIntKey(a.Tree, a.Fault)
	if underResponses {
		o.label("under-responses")
	}
	switch {
	case !c.PlainKeys:
		o.label("yaml-keys:quoted")
	case chainInt:
		o.label("yaml-keys:plain-int-key-on-fault-chain")
	case anyInt:
		o.label("yaml-keys:plain-int-keys-elsewhere")
	default:
		o.label("yaml-keys:plain-style-but-no-int-key")
	}
	if underResponses && c.PlainKeys {
		o.label("under-responses+plain-keys")
	}
	ytext, err := emitYAML(a.Tree, c.PlainKeys)
	var ixY *docIndex
	if err == nil {
		ixY, err = indexDoc(ytext, a.Tree)
	}
	if err != nil {
		// yaml.v3 could not spell this tree as the same data: only the JSON spelling runs
		o.label("yaml-spelling-unavailable")
		o.notes = append(o.notes, fmt.Sprintf("yaml spelling unavailable for %s: %v", c.id(), err))
		ytext, ixY = nil, nil
	}

	slow := false
	for _, d := range deepExpensive {
		slow = slow || (c.Fault == "deep" && c.Arg == d)
	}
	var vj, vy verdict
	var uj, uy string
	var wg sync.WaitGroup
	wg.Add(1)
	go func() {
		defer wg.Done()
		vj, uj = execute(request{Name: jsonName, Data: jtext, Strict: c.Strict, Slow: slow})
	}()
	if ixY != nil {
		wg.Add(1)
		go func() {
			defer wg.Done()
			vy, uy = execute(request{Name: yamlName, Data: ytext, Strict: c.Strict, Slow: slow})
		}()
	}
	baseKey := c.Base
	if c.Inline != "" {
		baseKey = c.id()
	}
	vb := baseVerdict(baseKey, base, c.Strict)
	wg.Wait()

	for _, u := range []string{uj, uy} {
		if u != "" {
			o.label("unconfirmed-worker-loss")
			o.notes = append(o.notes, fmt.Sprintf("inconclusive (not a violation): %s: %s", c.id(), u))
		}
	}
	if vj.CPUMS > 5000 || vy.CPUMS > 5000 {
		o.label("slow")
		o.notes = append(o.notes, fmt.Sprintf("slow (CPU): %s json=%dms yaml=%dms", c.id(), vj.CPUMS, vy.CPUMS))
	}
	o.label("outcome:%s@%s", vj.Class, vj.Stage)
	o.nontrivial = vj.Class != vb.Class || vj.Stage != vb.Stage || stripPositions(vj.Err, jsonName) != stripPositions(vb.Err, jsonName)
	o.sample = map[string]any{"case": c, "fault_at": pointerOf(base.keyPath(c.Path)), "outcome": vj.Class + "@" + vj.Stage, "err": clip(vj.Err, 300)}

	// oracle A
	sh := shape{Fault: c.Fault, Arg: c.Arg, KeyPath: a.Target}
	if f := totality(vj, "JSON", sh); f != nil {
		o.finding = f
		return o
	}
	if ixY != nil {
		if f := totality(vy, "YAML", sh); f != nil {
			o.finding = f
			return o
		}
	}

	// oracle B(1): every position lies inside its document
	jl, yl := splitLines(jtext), splitLines(ytext)
	for _, l := range vj.Locs {
		if f := inDocument(l, ixJ, jl, jsonName); f != nil {
			f.What = "JSON spelling: " + f.What + "; error: " + clip(vj.Err, 400)
			o.finding = f
			return o
		}
	}
	if ixY != nil {
		for _, l := range vy.Locs {
			if f := inDocument(l, ixY, yl, yamlName); f != nil {
				f.What = "YAML spelling: " + f.What + "; error: " + clip(vy.Err, 400)
				o.finding = f
				return o
			}
		}
	}

	// oracle B(3): both spellings agree (class, stage, message, node).
	// ogen walks components in Go map order, so which of several errors is
	// reported (and through which chain of references it is reached) can change
	// from run to run of the SAME text. A disagreement is therefore re-run: it
	// counts only when each spelling keeps giving its own single answer (24 runs
	// each); when a spelling contradicts itself the comparison is inconclusive.
	if ixY != nil {
		if f := metamorphic(a, vj, vy, ixJ, ixY); f != nil {
			js, ys := []verdict{vj}, []verdict{vy}
			sigs := func(vs []verdict) int {
				m := map[string]bool{}
				for _, v := range vs {
					m[fmt.Sprintf("%s|%s|%s|%v", v.Class, v.Stage, stripPositions(v.Err, jsonName, yamlName), v.Locs)] = true
				}
				return len(m)
			}
			state := "differ"
		retry:
			for i := 0; i < 24; i++ {
				if i >= 5 && (sigs(js) > 1 || sigs(ys) > 1) {
					state = "inconclusive"
					break
				}
				var rj, ry verdict
				var w2 sync.WaitGroup
				w2.Add(2)
				go func() { defer w2.Done(); rj, _ = execute(request{Name: jsonName, Data: jtext, Strict: c.Strict}) }()
				go func() { defer w2.Done(); ry, _ = execute(request{Name: yamlName, Data: ytext, Strict: c.Strict}) }()
				w2.Wait()
				js, ys = append(js, rj), append(ys, ry)
				for _, x := range js {
					for _, y := range ys {
						if totality(x, "", sh) == nil && totality(y, "", sh) == nil && metamorphic(a, x, y, ixJ, ixY) == nil {
							vj, vy, state = x, y, "agreed"
							break retry
						}
					}
				}
			}
			switch state {
			case "differ":
				f.What += fmt.Sprintf(" [stable over %d runs of each spelling]", len(js))
				o.finding = f
				return o
			case "agreed":
				o.label("spellings:agree-after-rerun(nondeterministic-diagnostic)")
			default:
				o.label("spellings:inconclusive(nondeterministic-diagnostic)")
			}
		} else if vj.Class == "error" {
			o.label("spellings:agree")
		}
	}

	// oracle B(2): the innermost position with a line is attributable to the fault
	if vj.Class == "error" {
		located := false
		for i := len(vj.Locs) - 1; i >= 0; i-- {
			l := vj.Locs[i]
			if l.Line == 0 {
				continue
			}
			located = true
			if vb.Class != "ok" {
				o.label("position:base-fails-too")
				break
			}
			lab := attribute(a, ixJ, l)
			o.label("position:%s", lab)
			o.label("precision:%s:%s", a.Label, lab)
			// Faults that change one value in place (another kind, "", a bad
			// number, a bad escape in a key) leave no room for doubt about the
			// offending node: the position must be that entry (key or value) or
			// lie inside it, not at an ancestor or a neighbour.
			if precise(a.Label, c.Arg) && !nameLike(a.Target) && lab != "at-fault" && lab != "inside-fault" && lab != "unattributed" && lab != "not-at-a-node-start" &&
				!(strings.HasPrefix(a.Label, "num-") && atImmediateParent(ixJ, l, a.Fault)) {
				cands := ixJ.at(l.Line, l.Col)
				where := "?"
				if len(cands) > 0 {
					where = describePath(a.Tree, cands[0].Path)
				}
				o.finding = vk.F("position-outside-faulted-node", "fault %s(%s) at %s changes this one value in place; the diagnostic points at %d:%d = %s (%s), not at or inside the faulted entry: %s",
					c.Fault, c.Arg, describePath(a.Tree, a.Fault), l.Line, l.Col, where, lab, clip(vj.Err, 500))
				return o
			}
			if lab == "unattributed" || lab == "not-at-a-node-start" {
				cands := ixJ.at(l.Line, l.Col)
				where := "?"
				if len(cands) > 0 {
					where = describePath(a.Tree, cands[0].Path)
				}
				msg := fmt.Sprintf("fault %s(%s) at %s; the diagnostic points at %d:%d = %s, which is neither on the root→fault chain, nor in the faulted object, nor in a node that refers to it: %s",
					c.Fault, c.Arg, describePath(a.Tree, a.Fault), l.Line, l.Col, where, clip(vj.Err, 500))
				if unattributedIsViolation {
					o.finding = vk.F("position-unrelated-"+lab, "%s", msg)
					return o
				}
				o.notes = append(o.notes, msg)
			}
			break // innermost only
		}
		if !located {
			o.label("position:none@%s", vj.Stage)
			o.unlocated = unlocatedKey(vj.Err)
		}
	}
	return o
}

var quotedRe = regexp.MustCompile(`"[^"]*"`)

// unlocatedKey reduces a message to its shape (quoted names removed).
func unlocatedKey(msg string) string {
	return clip(quotedRe.ReplaceAllString(msg, `"…"`), 160)
}

// yamlOnlyNumber returns the two spellings of the number that the tree writes differently in YAML and JSON.
func yamlOnlyNumber(n *node) (ys, js string) {
	if n.K == kNum && n.YS != "" {
		return n.YS, n.S
	}
	for _, k := range n.Kids {
		if ys, js = yamlOnlyNumber(k); ys != "" {
			return ys, js
		}
	}
	return "", ""
}

// metamorphic compares the verdicts of the two spellings of the same data.
func metamorphic(a applied, vj, vy verdict, ixJ, ixY *docIndex) *vk.Finding {
	if vj.Class != vy.Class || vj.Stage != vy.Stage {
		return vk.F("spellings-differ-outcome", "same data, JSON spelling: %s at stage %s (%s); YAML spelling: %s at stage %s (%s)",
			vj.Class, vj.Stage, clip(vj.Err, 300), vy.Class, vy.Stage, clip(vy.Err, 300))
	}
	if vj.Class != "error" {
		return nil
	}
	mj, my := stripPositions(vj.Err, jsonName), stripPositions(vy.Err, yamlName)
	if ys, js := yamlOnlyNumber(a.Tree); ys != "" {
		// the two texts spell ONE number differently on purpose (.5 / 0.5): a message that quotes the scalar
		// quotes another text and, for +5 / 5., another YAML tag; nothing else may differ
		quote := func(m, lit string) string {
			m = strings.ReplaceAll(m, "`"+lit+"`", "`<number>`")
			m = strings.ReplaceAll(m, `"`+lit+`"`, `"<number>"`)
			m = strings.ReplaceAll(m, "!!float `<number>`", "!!num `<number>`")
			return strings.ReplaceAll(m, "!!int `<number>`", "!!num `<number>`")
		}
		mj, my = quote(mj, js), quote(my, ys)
	}
	if mj != my {
		return vk.F("spellings-differ-message", "same data, messages differ beyond positions:\n JSON: %s\n YAML: %s", clip(vj.Err, 500), clip(vy.Err, 500))
	}
	if len(vj.Locs) != len(vy.Locs) {
		return vk.F("spellings-differ-locations", "same data, JSON spelling carries %d positions, YAML %d: %s | %s", len(vj.Locs), len(vy.Locs), clip(vj.Err, 300), clip(vy.Err, 300))
	}
	for i := range vj.Locs {
		lj, ly := vj.Locs[i], vy.Locs[i]
		if (lj.Line == 0) != (ly.Line == 0) || lj.Kind != ly.Kind {
			return vk.F("spellings-differ-locations", "same data, position #%d: JSON %s %d:%d, YAML %s %d:%d (%s)", i, lj.Kind, lj.Line, lj.Col, ly.Kind, ly.Line, ly.Col, clip(vj.Err, 300))
		}
		if lj.Line == 0 {
			continue
		}
		sj, sy := candSet(ixJ, lj), candSet(ixY, ly)
		if len(sj) == 0 && len(sy) == 0 && (lj.Kind == "error" || lj.Kind == "report") {
			return vk.F("position-not-at-a-node-start", "position #%d (%s) is %d:%d in the JSON spelling and %d:%d in the YAML spelling; no node or key of either document starts there; error: %s",
				i, lj.Kind, lj.Line, lj.Col, ly.Line, ly.Col, clip(vj.Err, 400))
		}
		common := false
		for k := range sj {
			if sy[k] {
				common = true
			}
		}
		if !common {
			return vk.F("spellings-differ-node", "same data, position #%d (%s) maps to node %s in the JSON spelling (%d:%d) but to %s in the YAML spelling (%d:%d); error: %s",
				i, lj.Kind, setStr(sj), lj.Line, lj.Col, setStr(sy), ly.Line, ly.Col, clip(vj.Err, 400))
		}
	}
	return nil
}

// ---- generator -----------------------------------------------------------------------------

const quickBaseLimit = 40 << 10 // quick tier: bases up to this size (bigger ones cost seconds per mutant)

func eligibleBases(limit int) []*baseSpec {
	loadCorpus()
	var out []*baseSpec
	for _, b := range corpusFiles {
		if len(b.Data) <= limit && b.Tree() != nil {
			out = append(out, b)
		}
	}
	return out
}

// fault weights for the sampled (quick) generator
var faultWeights = []struct {
	f string
	w int
}{
	{"delete", 14}, {"retype", 16}, {"null", 12}, {"empty", 10}, {"escape", 6}, {"dangling", 8},
	{"cycle", 10}, {"dupname", 10}, {"num", 10}, {"deep", 4}, {"code-key", 6}, {"code-null", 4}, {"code-dup", 4},
}

// plainKeysFor: 3 of 4 mutants whose fault sits under `responses` use the
// unquoted response-code keys, 1 of 2 of the others (r is uniform in 0..3).
func plainKeysFor(tree *node, path []int, r uint64) bool {
	for _, k := range tree.keyPath(path) {
		if k == "responses" {
			return r%4 != 0
		}
	}
	return r%2 == 0
}

// drawMutant: rapid supplies entropy only (its integer generators are biased
// towards small values on purpose, which would favour the first fault kinds and
// the first sites); the choices are spread uniformly by hashing the drawn words.
func drawMutant(bases []*baseSpec) func(t *rapid.T) mutCase {
	var faults []string
	for _, fw := range faultWeights {
		for i := 0; i < fw.w; i++ {
			faults = append(faults, fw.f)
		}
	}
	return func(t *rapid.T) mutCase {
		w := rapid.SliceOfN(rapid.Uint64(), 3, 3).Draw(t, "entropy")
		for try := 0; ; try++ {
			pick := func(what string, n int) int { return int(hash64(w, try, what) % uint64(n)) }
			b := bases[pick("base", len(bases))]
			f := faults[pick("fault", len(faults))]
			sites := b.sites.byFault[f]
			if len(sites) == 0 {
				if try < 50 {
					continue
				}
				f, sites = "delete", b.sites.byFault["delete"]
			}
			s := sites[pick("site", len(sites))]
			vs := variants(b.tree, f, s)
			arg := vs[pick("arg", len(vs))]
			// known findings (stack overflows on cyclic parameter schemas) cost
			// seconds each and hide nothing new: keep one in four of that shape
			if f == "cycle" && try < 50 && pick("avoid", 4) != 0 {
				under := false
				for _, k := range b.tree.keyPath(s.Path) {
					under = under || k == "parameters"
				}
				if under {
					continue
				}
			}
			return mutCase{Base: b.Rel, Path: s.Path, Key: s.Key, Fault: f, Arg: arg, Strict: pick("strict", 4) == 0,
				PlainKeys: plainKeysFor(b.tree, s.Path, uint64(pick("plain", 4)))}
		}
	}
}

// ---- regression cases: hostile shapes that reading the code pointed at ---------------------

const miniSpec = `{"openapi":"3.0.3","info":{"title":"t","version":"1"},"paths":{"/a/{id}":{"get":{"operationId":"getA","parameters":[{"name":"id","in":"path","required":true,"schema":{"type":"string"}},{"name":"q","in":"query","schema":{"type":"integer","minimum":0,"maximum":10}}],"responses":{"200":{"description":"ok","content":{"application/json":{"schema":{"$ref":"#/components/schemas/Pet"}}}}}}},"/b":{"get":{"operationId":"getB","responses":{"200":{"description":"ok"}}}}},"components":{"schemas":{"Pet":{"type":"object","required":["id"],"properties":{"id":{"type":"integer","format":"int64"},"name":{"type":"string","maxLength":10},"tags":{"type":"array","items":{"type":"string"}}}}}}}`

// miniSpec2 carries the shapes of the known findings: a form body, an object
// with properties and patternProperties, a deepObject parameter with patternProperties.
const miniSpec2 = `{"openapi":"3.0.3","info":{"title":"t","version":"1"},"paths":{"/f":{"post":{"operationId":"postF","parameters":[{"name":"flex","in":"query","style":"deepObject","schema":{"type":"object","properties":{"a":{"type":"string"}},"patternProperties":{"^p":{"type":"array","items":{"type":"string"}}}}},{"name":"q","in":"query","schema":{"$ref":"#/components/schemas/Q"}}],"requestBody":{"content":{"application/x-www-form-urlencoded":{"schema":{"type":"object","properties":{"a":{"type":"string"}}}}}},"responses":{"200":{"description":"ok","content":{"application/json":{"schema":{"type":"object","properties":{"id":{"type":"integer"}},"patternProperties":{"^x-":{"type":"string"}}}}}}}}}},"components":{"schemas":{"Q":{"type":"string"}}}}`

func regressionMutants() []mutCase {
	out := regressionMutantsOf(miniSpec, func(find func(keys ...string) []int, add func(path []int, key bool, fault string, args ...string)) {
		pa := find("paths", "/a/{id}")
		pb := find("paths", "/b")
		pet := find("components", "schemas", "Pet")
		ref := find("paths", "/a/{id}", "get", "responses", "200", "content", "application/json", "schema", "$ref")
		refHolder := ref[:len(ref)-1]
		max := find("paths", "/a/{id}", "get", "parameters", "1", "schema", "maximum")
		maxLen := find("components", "schemas", "Pet", "properties", "name", "maxLength")
		// /a%0a% style keys: fixed in 9f821d33 (uri.NormalizeEscapedPath), must stay clean
		add(pb, true, "escape", "%", "%0a%", "%zz", "%0a%zz", "%e4%b8", "pre:%", "pre:%0a%", "%%", "%2", "%2f%", "%2F", "%25", "%e4%b8%96")
		add(pa, true, "escape", "%0a%", "%", "pre:%0a%")
		add(pet, false, "cycle", "replace-self", "allOf-self", "oneOf-self", "anyOf-self", "replace-root", "items-allOf-self",
			"oneOf-in-oneOf-self", "anyOf-in-oneOf-self", "oneOf-in-anyOf-self", "allOf-in-oneOf-self", "oneOf-in-allOf-self")
		add(refHolder, false, "cycle", "replace-root", "allOf-self")
		add(ref, false, "cycle", "self", "parent", "grandparent", "root")
		add(ref, false, "dangling", "missing", "suffix", "empty-frag", "no-hash", "bad-escape", "tilde", "slash-end")
		add(pet, false, "deep", deepVariants...)
		add(max, false, "num", "-1", "1e400", "99999999999999999999", "x", "1.5", "-0", "1e-400", "9223372036854775808")
		add(maxLen, false, "num", "-1", "1e400", "99999999999999999999", "x", "1.5", "-0", "9223372036854775808")
		add(nil, false, "retype", "seq-wrap", "str", "seq-empty")
		add(nil, false, "null", "")
		add(find("paths"), false, "retype", "seq-wrap", "str")
		add(find("paths"), false, "null", "")
		add(find("components"), false, "null", "")
		add(find("components", "schemas"), false, "retype", "seq-wrap")
		add(find("paths", "/a/{id}", "get", "operationId"), false, "dupname", "")
		add(find("paths", "/a/{id}", "get", "parameters", "1", "name"), false, "dupname", "")
		add(pet, true, "empty", "")
		add(pet, false, "delete", "")
		// response-code keys written unquoted in YAML (`200:` is an !!int key)
		r200 := find("paths", "/a/{id}", "get", "responses", "200")
		add(r200, true, "code-key", "600", "99", "1000", "0", "-1", "99999999999999999999", "6XX", "0200", "418", "2XX",
			"0XX", "-XX", " XX", "+XX", "9XX", "XXX", "/XX", "1xx", "10X", "XX", "éXX")
		add(r200, false, "code-null", "")
		add(r200, true, "code-dup", "")
		add(find("paths", "/b", "get", "responses", "200"), true, "code-key", "600")
		add(find("paths", "/a/{id}", "get", "responses", "200", "description"), false, "null", "")
		add(find("paths", "/a/{id}", "get", "responses", "200", "description"), false, "retype", "seq-wrap")
	})
	out = append(out, regressionMutantsOf(miniSpec2, func(find func(keys ...string) []int, add func(path []int, key bool, fault string, args ...string)) {
		op := []string{"paths", "/f", "post"}
		at := func(more ...string) []int { return find(append(append([]string{}, op...), more...)...) }
		// known findings (see known_findings.d/C11.json)
		add(at("requestBody", "content", "application/x-www-form-urlencoded", "schema"), false, "null", "")
		add(at("requestBody", "content", "application/x-www-form-urlencoded", "schema"), false, "delete", "")
		add(at("responses", "200", "content", "application/json", "schema", "patternProperties", "^x-"), false, "null", "")
		add(at("parameters", "0", "schema", "patternProperties", "^p"), false, "cycle", "items-allOf-self", "replace-self")
		add(find("components", "schemas", "Q"), false, "cycle", "anyOf-self", "oneOf-self", "allOf-self")
		// neighbours of those shapes
		add(at("requestBody", "content", "application/x-www-form-urlencoded"), false, "null", "")
		add(at("requestBody", "content"), false, "null", "")
		add(at("requestBody"), false, "null", "")
		add(at("parameters", "0"), false, "null", "")
		add(at("parameters", "0", "schema"), false, "null", "")
		add(at("parameters", "0", "schema", "patternProperties"), false, "null", "")
		add(at("parameters", "0", "schema", "properties", "a"), false, "null", "")
		add(at("responses", "200", "content", "application/json", "schema", "properties", "id"), false, "null", "")
		add(at("responses", "200", "content", "application/json", "schema", "patternProperties"), false, "retype", "seq-wrap", "str")
		add(at("responses", "200"), false, "null", "")
		add(at("responses"), false, "null", "")
	})...)
	return out
}

// richMutants: every site of corpus/c11/rich.json (a document that ogen accepts and that uses
// most constructs of the format: servers, security, callbacks, links, examples, encodings,
// discriminators, extensions, every parameter location) gets every structural fault kind with every
// variant, every other kind with one variant that rotates with the seed. Bounded-exhaustive, part of
// the quick tier (always run, sharded with the regression list).
func richMutants() []mutCase {
	data, err := os.ReadFile(filepath.Join(verifRoot(), "corpus", "c11", "rich.json"))
	if err != nil {
		panic(err)
	}
	var doc yaml3.Node
	if err := yaml3.Unmarshal(data, &doc); err != nil {
		panic(err)
	}
	tree, _ := fromYAML(&doc, 0)
	ix := collectSites(tree)
	seed := vk.Seed()
	var out []mutCase
	for _, f := range faultKinds {
		if f == "deep" {
			continue
		}
		for _, st := range ix.byFault[f] {
			vs := variants(tree, f, st)
			if len(vs) == 0 {
				continue
			}
			h := hash64(seed, "rich", st.Path, st.Key, f)
			switch f {
			case "delete", "null", "empty", "retype", "code-null", "code-dup", "dupname":
			default:
				vs = []string{vs[h%uint64(len(vs))]}
			}
			for i, arg := range vs {
				out = append(out, mutCase{Inline: string(data), Path: st.Path, Key: st.Key, Fault: f, Arg: arg,
					Strict: (h>>20+uint64(i))%2 == 0, PlainKeys: plainKeysFor(tree, st.Path, (h>>24)%4)})
			}
		}
	}
	return out
}

func regressionMutantsOf(spec string, build func(find func(keys ...string) []int, add func(path []int, key bool, fault string, args ...string))) []mutCase {
	var doc yaml3.Node
	if err := yaml3.Unmarshal([]byte(spec), &doc); err != nil {
		panic(err)
	}
	tree, _ := fromYAML(&doc, 0)
	find := func(keys ...string) []int {
		var p []int
		n := tree
	outer:
		for _, k := range keys {
			for i := range n.Kids {
				tok := fmt.Sprint(i)
				if n.K == kMap {
					tok = n.Keys[i]
				}
				if tok == k {
					p = append(p, i)
					n = n.Kids[i]
					continue outer
				}
			}
			panic("regression path not found: " + strings.Join(keys, "/"))
		}
		return p
	}
	var out []mutCase
	add := func(path []int, key bool, fault string, args ...string) {
		for _, arg := range args {
			for _, strict := range []bool{false, true} {
				out = append(out, mutCase{Inline: spec, Path: path, Key: key, Fault: fault, Arg: arg, Strict: strict, PlainKeys: true})
			}
		}
	}
	build(find, add)
	return out
}

// ---- unit: mutants ---------------------------------------------------------------------------

func TestMutants(t *testing.T) {
	u := vk.New(t, "C11", "mutants")
	defer u.Close()
	var unlocMu sync.Mutex
	unloc := map[string]int{}
	defer func() {
		// the most frequent shapes of diagnostics without any position (not a
		// violation of the property as stated; reported for information)
		type kv struct {
			K string
			N int
		}
		var l []kv
		for k, n := range unloc {
			l = append(l, kv{k, n})
		}
		sort.Slice(l, func(i, j int) bool { return l[i].N > l[j].N || l[i].N == l[j].N && l[i].K < l[j].K })
		if len(l) > 25 {
			l = l[:25]
		}
		u.Set("unlocated_diagnostics_top", l)
	}()
	record := func(c mutCase, o outcome) *vk.Finding {
		for _, l := range o.labels {
			u.Label(l)
		}
		if o.unlocated != "" {
			unlocMu.Lock()
			unloc[o.unlocated]++
			unlocMu.Unlock()
		}
		for _, n := range o.notes {
			u.Note("%s", n)
		}
		if o.nontrivial {
			u.NonTrivial(c.id())
			if o.sample != nil {
				u.Sample(o.sample)
			}
		}
		return o.finding
	}
	check := func(c mutCase) *vk.Finding { return record(c, evalMutant(c)) }

	bases := eligibleBases(quickBaseLimit)
	if len(bases) == 0 {
		t.Fatalf("no corpus under %s/_testdata", repoDir())
	}
	u.Set("bases_sampled", len(bases))
	var regress []mutCase
	shard, shards := vk.Shard()
	for i, c := range append(regressionMutants(), richMutants()...) {
		if i%shards == shard {
			regress = append(regress, c)
		}
	}
	if vk.Tier() == "quick" || vk.InReplay() {
		vk.Rapid(u, 2400, regress, drawMutant(bases), check)
		return
	}
	// thorough: the regression list, a sampled part over the quick bases, then the enumeration
	vk.Rapid(u, 3200, regress, drawMutant(bases), check)
	enumerateMutants(u, check)
}

// enumerateMutants (thorough tier): every eligible site of every corpus spec up
// to enumLimit bytes gets every applicable fault kind once (the argument variant
// rotates with VERIF_SEED and the site), sharded; larger specs (except the two
// largest files, which are left out) are sampled by a seeded hash.
const (
	enumLimit     = 16 << 10  // exhaustive up to this size (≈ 37 000 mutants)
	sampledLimit  = 600 << 10 // larger bases (up to seconds per mutant) are sampled
	enumParallel  = 2
	sampledPerBig = 150
)

func hash64(parts ...any) uint64 {
	h := fnv.New64a()
	fmt.Fprint(h, parts...)
	return h.Sum64()
}

func enumerateMutants(u *vk.Unit, check func(mutCase) *vk.Finding) {
	loadCorpus()
	shard, shards := vk.Shard()
	seed := vk.Seed()
	type job struct{ c mutCase }
	jobs := make(chan mutCase, 64)
	var wg sync.WaitGroup
	for i := 0; i < enumParallel; i++ {
		wg.Add(1)
		go func() {
			defer wg.Done()
			for c := range jobs {
				vk.Each(u, c, check)
			}
		}()
	}
	// the two largest files are left out
	bySize := append([]*baseSpec{}, corpusFiles...)
	sort.Slice(bySize, func(i, j int) bool { return len(bySize[i].Data) > len(bySize[j].Data) })
	skip := map[string]bool{}
	for i := 0; i < 2 && i < len(bySize); i++ {
		skip[bySize[i].Rel] = true
	}
	var idx uint64
	enumerated, sampled := 0, 0
	for _, b := range corpusFiles {
		if skip[b.Rel] || len(b.Data) > sampledLimit || b.Tree() == nil {
			continue
		}
		exhaustive := len(b.Data) <= enumLimit
		total := 0
		for _, f := range faultKinds {
			total += len(b.sites.byFault[f])
		}
		for _, f := range faultKinds {
			for _, s := range b.sites.byFault[f] {
				idx++
				h := hash64(seed, b.Rel, s.Path, s.Key, f)
				if !exhaustive && h%uint64(total) >= sampledPerBig {
					continue
				}
				if idx%uint64(shards) != uint64(shard) {
					continue
				}
				vs := variants(b.tree, f, s)
				arg := vs[(h>>8)%uint64(len(vs))]
				c := mutCase{Base: b.Rel, Path: s.Path, Key: s.Key, Fault: f, Arg: arg, Strict: (h>>20)%4 == 0,
					PlainKeys: plainKeysFor(b.tree, s.Path, (h>>24)%4)}
				if exhaustive {
					enumerated++
				} else {
					sampled++
				}
				jobs <- c
			}
		}
	}
	// the separately labelled expensive deep family (tens of CPU seconds each): one per shard
	if deepBases := eligibleBases(8 << 10); len(deepBases) > 0 && shard < 8 {
		b := deepBases[hash64(seed, shard, "deepbase")%uint64(len(deepBases))]
		if sites := b.sites.byFault["deep"]; len(sites) > 0 {
			s := sites[hash64(seed, shard, b.Rel)%uint64(len(sites))]
			jobs <- mutCase{Base: b.Rel, Path: s.Path, Fault: "deep", Arg: deepExpensive[shard%len(deepExpensive)]}
		}
	}
	close(jobs)
	wg.Wait()
	u.LabelN("enumerated-exhaustive-bases", enumerated)
	u.LabelN("enumerated-sampled-big-bases", sampled)
}

// verifRoot is the directory of the verification tree (set by the driver; the working copy when a
// test is run by hand from checks/c11).
func verifRoot() string {
	if r := os.Getenv("VERIF_ROOT"); r != "" {
		return r
	}
	return filepath.Join("..", "..")
}

// atImmediateParent: the position is the start of the object that directly holds the faulted entry.
// A numeric keyword can be wrong in relation to a sibling keyword (minimum > maximum; ogen also reads
// an out-of-range integer into its unsigned field without complaint and then compares it): the
// schema object that holds both is then the offending node.
func atImmediateParent(ix *docIndex, l locInfo, fault []int) bool {
	if len(fault) == 0 {
		return false
	}
	parent := fault[:len(fault)-1]
	for _, c := range ix.at(l.Line, l.Col) {
		if len(c.Path) == len(parent) && isPrefix(c.Path, parent) {
			return true
		}
	}
	return false
}
