package c11

// Units "bytes" and "fuzz": byte-level inputs, oracle A (totality) only.

import (
	"bytes"
	"crypto/sha256"
	"encoding/hex"
	"fmt"
	"os"
	"path/filepath"
	"sort"
	"strconv"
	"strings"
	"testing"
	"time"

	"pgregory.net/rapid"

	"verif/internal/vk"
)

// ---- hostile material ---------------------------------------------------------------------

func deepFlow(n int) string { return strings.Repeat("[", n) }

// hostileTokens are spliced into corpus files.
var hostileTokens = []string{
	"%", "%0a%", "%zz", "{", "}", "[", "]", "~", "~2", "$ref: '#'", `{"$ref":"#"}`, "!!binary ", "!!binary |\n  ====", "!!map ", "!!float x", "!!int ",
	"&a ", "*a", "<<: *a", "<<: [*a, *a]", "&a [*a]", "1e400", "-1e400", "1e-400", "99999999999999999999", "0x7fffffffffffffffff", ".inf", ".nan",
	"\"", "'", "\t", ": ", "- ", "? ", "#", "\x00", "\xff\xfe", "\xef\xbb\xbf", "---\n", "...\n", "|", ">", "|+9", "\r", "\u2028", "\\u0000", "\\ud800",
	"null", "~\n", "[]", "{}", "{{}}", "/{}", "/{a}{a}", "/{", "{a", "%7B", "\n\n", ",", ",,", ":", "@", "`",
}

// hostileDocs are whole documents.
func hostileDocs() map[string][]byte {
	const head = "openapi: 3.0.3\ninfo: {title: t, version: '1'}\n"
	bomb := func(levels, width int) string {
		var b strings.Builder
		b.WriteString(head)
		b.WriteString("x-a0: &a0 [x,x,x,x,x,x,x,x,x]\n")
		for i := 1; i <= levels; i++ {
			fmt.Fprintf(&b, "x-a%d: &a%d [", i, i)
			for j := 0; j < width; j++ {
				if j > 0 {
					b.WriteByte(',')
				}
				fmt.Fprintf(&b, "*a%d", i-1)
			}
			b.WriteString("]\n")
		}
		b.WriteString("paths: {}\n")
		return b.String()
	}
	docs := map[string]string{
		"empty":            "",
		"percent":          "%",
		"brace-open":       "{",
		"brace-close":      "}",
		"tilde":            "~",
		"ref-root":         "$ref: '#'",
		"binary":           "!!binary",
		"binary-spec":      head + "paths: !!binary aGVsbG8=\n",
		"null-doc":         "null",
		"scalar-doc":       "x",
		"seq-doc":          "- a\n- b\n",
		"deep-flow-200":    deepFlow(200),
		"deep-flow-closed": deepFlow(200) + strings.Repeat("]", 200),
		"deep-flow-12000":  deepFlow(12000),
		"deep-map-flow":    strings.Repeat("{a: ", 500) + "1" + strings.Repeat("}", 500),
		"huge-exponent":    head + "paths: {}\ncomponents: {schemas: {A: {type: number, maximum: 1e400, minimum: -1e400, multipleOf: 1e-400}}}\n",
		"huge-int":         head + "paths: {}\ncomponents: {schemas: {A: {type: string, maxLength: 99999999999999999999, minLength: -1}}}\n",
		"anchor-self":      head + "paths: &a {/a: *a}\n",
		"merge-self":       head + "paths: &a\n  <<: *a\n",
		"merge-key":        head + "x-b: &b {get: {responses: {'200': {description: ok}}}}\npaths:\n  /a:\n    <<: *b\n",
		"alias-bomb-6x9":   bomb(6, 9),
		"alias-bomb-9x9":   bomb(9, 9),
		"path-bad-escape":  head + "paths: {'/a%0a%': {get: {responses: {'200': {description: ok}}}}}\n",
		"path-percent":     head + "paths: {'/%': {get: {responses: {'200': {description: ok}}}}}\n",
		"path-braces":      head + "paths: {'/{': {get: {responses: {'200': {description: ok}}}}, '/}': {}, '/{}': {}, '/{a}{a}': {}}\n",
		"ref-root-paths":   head + "paths: {$ref: '#'}\n",
		"ref-root-schema":  head + "paths: {}\ncomponents: {schemas: {A: {$ref: '#'}}}\n",
		"ref-root-param":   head + "paths: {/a: {get: {parameters: [{$ref: '#'}], responses: {'200': {description: ok}}}}}\n",
		"ref-tilde":        head + "paths: {}\ncomponents: {schemas: {A: {$ref: '#/components/schemas/~'}, B: {$ref: '#/components/schemas/~2'}}}\n",
		"form-no-schema":   head + "paths: {/a: {post: {requestBody: {content: {application/x-www-form-urlencoded: {}}}, responses: {'200': {description: ok}}}}}\n",
		"pattern-null":     head + "paths: {/a: {get: {responses: {'200': {description: ok, content: {application/json: {schema: {type: object, properties: {id: {type: integer}}, patternProperties: {'^x-': null}}}}}}}}}\n",
		"param-cycle":      head + "paths: {/a: {get: {parameters: [{name: q, in: query, schema: {$ref: '#/components/schemas/A'}}], responses: {'200': {description: ok}}}}}\ncomponents: {schemas: {A: {anyOf: [{$ref: '#/components/schemas/A'}]}}}\n",
		"dup-keys":         head + "paths: {}\npaths: {}\n",
		"bom":              "\xef\xbb\xbf" + head + "paths: {}\n",
		"utf16-bom":        "\xff\xfeo\x00p\x00e\x00n\x00a\x00p\x00i\x00:\x00 \x003\x00",
		"nul":              head + "paths: {}\n\x00",
		"tabs":             "openapi:\t3.0.3\ninfo:\t{title: t, version: '1'}\npaths:\t{}\n",
		"crlf":             strings.ReplaceAll(head+"paths: {}\n", "\n", "\r\n"),
		"multi-doc":        head + "paths: {}\n---\n" + head + "paths: {}\n",
		"directive":        "%YAML 1.1\n---\n" + head + "paths: {}\n",
		"tag-directive":    "%TAG ! tag:x,2000:\n---\n" + head + "paths: !foo {}\n",
		"long-key":         head + "paths: {'/" + strings.Repeat("a", 70000) + "': {}}\n",
		"complex-key":      head + "paths:\n  ? [a, b]\n  : {}\n",
		"null-key":         head + "paths:\n  ~: {}\n  null: {}\n",
		"int-keys":         head + "paths: {1: {}, 1.5: {}, true: {}}\n",
		"version-huge":     "openapi: 99999999999999999999.0.0\ninfo: {title: t, version: '1'}\npaths: {}\n",
		"version-seq":      "openapi: [3, 0, 3]\ninfo: {title: t, version: '1'}\npaths: {}\n",
	}
	out := map[string][]byte{}
	for k, v := range docs {
		out["const:"+k] = []byte(v)
	}
	return out
}

// ---- byte mutations ---------------------------------------------------------------------------

type byteOp struct {
	K string `json:"k"`           // truncate | splice | flip | insert | delete | replace | dupline
	A uint32 `json:"a"`           // position, scaled to the length
	B uint32 `json:"b,omitempty"` // second position / length
	S int    `json:"s,omitempty"` // index into hostileTokens
}

type byteCase struct {
	Seed   string   `json:"seed"` // path under _testdata, or "const:<name>"
	Ops    []byteOp `json:"ops"`
	Strict bool     `json:"strict,omitempty"`
}

func scale(a uint32, n int) int {
	if n <= 0 {
		return 0
	}
	return int(uint64(a) % uint64(n+1))
}

func applyOps(data []byte, ops []byteOp) []byte {
	d := append([]byte{}, data...)
	for _, op := range ops {
		at := scale(op.A, len(d))
		tok := hostileTokens[op.S%len(hostileTokens)]
		switch op.K {
		case "truncate":
			d = d[:at]
		case "splice":
			// copy a chunk from elsewhere over this place
			from := scale(op.B, len(d))
			n := int(op.B>>16)%64 + 1
			if from+n > len(d) {
				n = len(d) - from
			}
			chunk := append([]byte{}, d[from:from+n]...)
			end := at + n
			if end > len(d) {
				end = len(d)
			}
			d = append(append(append([]byte{}, d[:at]...), chunk...), d[end:]...)
		case "flip":
			if at < len(d) {
				d[at] ^= 1 << (op.B % 8)
			}
		case "insert":
			d = append(append(append([]byte{}, d[:at]...), tok...), d[at:]...)
		case "delete":
			n := int(op.B)%48 + 1
			end := at + n
			if end > len(d) {
				end = len(d)
			}
			d = append(append([]byte{}, d[:at]...), d[end:]...)
		case "replace":
			end := at + len(tok)
			if end > len(d) {
				end = len(d)
			}
			d = append(append(append([]byte{}, d[:at]...), tok...), d[end:]...)
		case "dupline":
			s := bytes.LastIndexByte(d[:at], '\n') + 1
			e := bytes.IndexByte(d[at:], '\n')
			if e < 0 {
				e = len(d)
			} else {
				e += at + 1
			}
			line := append([]byte{}, d[s:e]...)
			d = append(append(append([]byte{}, d[:e]...), line...), d[e:]...)
		}
		if len(d) > 1<<20 {
			d = d[:1<<20]
		}
	}
	return d
}

var (
	byteSeeds     map[string][]byte
	byteSeedNames []string
)

const byteSeedLimit = 12 << 10

func loadByteSeeds() {
	if byteSeeds != nil {
		return
	}
	loadCorpus()
	byteSeeds = hostileDocs()
	for _, list := range [][]*baseSpec{corpusFiles, negFiles} {
		for _, b := range list {
			if len(b.Data) <= byteSeedLimit {
				byteSeeds[b.Rel] = b.Data
			}
		}
	}
	for k := range byteSeeds {
		byteSeedNames = append(byteSeedNames, k)
	}
	sort.Strings(byteSeedNames)
}

var opKinds = []string{"truncate", "splice", "flip", "insert", "insert", "insert", "delete", "replace", "replace", "dupline"}

func drawBytes(t *rapid.T) byteCase {
	w := rapid.SliceOfN(rapid.Uint64(), 3, 3).Draw(t, "entropy")
	pick := func(what string, i, n int) uint64 { return hash64(w, what, i) % uint64(n) }
	// file seeds are preferred to the tiny constant documents 3:1
	var files, consts []string
	for _, n := range byteSeedNames {
		if strings.HasPrefix(n, "const:") {
			consts = append(consts, n)
		} else {
			files = append(files, n)
		}
	}
	pool := files
	if pick("pool", 0, 4) == 0 || len(files) == 0 {
		pool = consts
	}
	c := byteCase{Seed: pool[pick("seed", 0, len(pool))], Strict: pick("strict", 0, 4) == 0}
	nops := int(pick("nops", 0, 3)) + 1
	for i := 0; i < nops; i++ {
		c.Ops = append(c.Ops, byteOp{
			K: opKinds[pick("kind", i, len(opKinds))],
			A: uint32(pick("a", i, 1<<31)),
			B: uint32(pick("b", i, 1<<31)),
			S: int(pick("s", i, len(hostileTokens))),
		})
	}
	return c
}

func sha(b []byte) string {
	h := sha256.Sum256(b)
	return hex.EncodeToString(h[:8])
}

// evalBytes runs one byte-level input under oracle A.
func evalBytes(u *vk.Unit, name string, data []byte, strict bool) *vk.Finding {
	v, unconfirmed := execute(request{Name: "c11-input", Data: data, Strict: strict})
	if unconfirmed != "" {
		u.Label("unconfirmed-worker-loss")
		u.Note("inconclusive (not a violation): %s sha=%s: %s", name, sha(data), unconfirmed)
	}
	if v.CPUMS > 5000 {
		u.Label("slow")
		u.Note("slow: %s sha=%s len=%d cpu=%dms", name, sha(data), len(data), v.CPUMS)
	}
	u.Label(fmt.Sprintf("outcome:%s@%s", v.Class, v.Stage))
	if v.Class == "panic" || v.Class == "died" || v.Class == "watchdog" || v.Stage != "parse" {
		// non-trivial: got past the YAML front end (reached parser.Parse), or broke
		u.NonTrivial(sha(data) + strconv.FormatBool(strict))
		u.Sample(map[string]any{"input": name, "len": len(data), "outcome": v.Class + "@" + v.Stage, "err": clip(v.Err, 200)})
	}
	f := totality(v, "byte input "+name, shape{})
	if f != nil {
		f.What += "\ninput (" + strconv.Itoa(len(data)) + " bytes): " + strconv.QuoteToASCII(clip(string(data), 1500))
	}
	return f
}

func TestBytes(t *testing.T) {
	u := vk.New(t, "C11", "bytes")
	defer u.Close()
	loadByteSeeds()
	check := func(c byteCase) *vk.Finding {
		seed, ok := byteSeeds[c.Seed]
		if !ok {
			u.Label("skipped:seed-missing")
			return nil
		}
		for _, op := range c.Ops {
			u.Label("op:" + op.K)
		}
		return evalBytes(u, fmt.Sprintf("%s+%v", c.Seed, c.Ops), applyOps(seed, c.Ops), c.Strict)
	}
	// regression list: every hostile document unmodified (shard 0)
	var regress []byteCase
	shard, shards := vk.Shard()
	for i, n := range byteSeedNames {
		if strings.HasPrefix(n, "const:") && i%shards == shard {
			regress = append(regress, byteCase{Seed: n}, byteCase{Seed: n, Strict: true})
		}
	}
	u.Set("seeds", len(byteSeedNames))
	vk.Rapid(u, vk.N(1200, 20000), regress, drawBytes, check)
}

// ---- unit fuzz: the seed corpus of the native fuzz target ------------------------------------------

// fuzzSeeds lists the seed inputs of FuzzPipeline: corpus files and negative
// fixtures up to 64 KiB, the hostile documents, the committed seeds under
// $VERIF_ROOT/corpus/c11 and whatever `go test -fuzz` saved under testdata/fuzz.
func fuzzSeeds() (names []string, data map[string][]byte) {
	loadCorpus()
	data = hostileDocs()
	for _, list := range [][]*baseSpec{corpusFiles, negFiles} {
		for _, b := range list {
			if len(b.Data) <= 64<<10 {
				data[b.Rel] = b.Data
			}
		}
	}
	root := os.Getenv("VERIF_ROOT")
	if root == "" {
		root = "/verif"
	}
	for _, dir := range []string{filepath.Join(root, "corpus", "c11"), filepath.Join(root, "checks", "c11", "testdata", "fuzz", "FuzzPipeline")} {
		entries, _ := os.ReadDir(dir)
		for _, e := range entries {
			if e.IsDir() {
				continue
			}
			b, err := os.ReadFile(filepath.Join(dir, e.Name()))
			if err != nil {
				continue
			}
			if bytes.HasPrefix(b, []byte("go test fuzz v1\n")) {
				if d, ok := decodeFuzzFile(b); ok {
					b = d
				} else {
					continue
				}
			}
			data["saved:"+filepath.Base(dir)+"/"+e.Name()] = b
		}
	}
	for k := range data {
		names = append(names, k)
	}
	sort.Strings(names)
	return names, data
}

// decodeFuzzFile reads the first []byte value of a Go fuzz corpus file.
func decodeFuzzFile(b []byte) ([]byte, bool) {
	for _, line := range strings.Split(string(b), "\n")[1:] {
		line = strings.TrimSpace(line)
		if strings.HasPrefix(line, "[]byte(") && strings.HasSuffix(line, ")") {
			s, err := strconv.Unquote(line[len("[]byte(") : len(line)-1])
			if err != nil {
				return nil, false
			}
			return []byte(s), true
		}
	}
	return nil, false
}

type fuzzCase struct {
	Seed   string `json:"seed"`
	Strict bool   `json:"strict,omitempty"`
}

func TestFuzzSeeds(t *testing.T) {
	u := vk.New(t, "C11", "fuzz")
	defer u.Close()
	names, data := fuzzSeeds()
	check := func(c fuzzCase) *vk.Finding {
		d, ok := data[c.Seed]
		if !ok {
			u.Label("skipped:seed-missing")
			return nil
		}
		return evalBytes(u, c.Seed, d, c.Strict)
	}
	if c, ok := vk.ReplayOnly[fuzzCase](u); ok {
		u.Eval(1)
		if f := check(c); f != nil {
			u.Report(f, c)
		}
		return
	}
	if vk.InReplay() {
		return
	}
	shard, shards := vk.Shard()
	u.Set("seeds_total", len(names))
	u.Set("how_to_fuzz", "run by vcheck in the thorough tier; by hand: cd /verif && VERIF_FUZZING=1 GOFLAGS=-mod=mod GOPROXY=off GOSUMDB=off GOTOOLCHAIN=local go test ./checks/c11 -run '^$' -fuzz '^FuzzPipeline$' -fuzztime 20m")
	for i, n := range names {
		if i%shards != shard {
			continue
		}
		// quick tier: the saved/committed seeds only (the rest is covered by unit bytes); thorough: all
		if vk.Tier() == "quick" && !strings.HasPrefix(n, "saved:") && !strings.HasPrefix(n, "const:") {
			continue
		}
		for _, strict := range []bool{false, true} {
			vk.Each(u, fuzzCase{Seed: n, Strict: strict}, check)
		}
	}
}

// FuzzPipeline is the native coverage-guided target (oracle A). vcheck runs it as a
// bounded campaign in the thorough tier (checks.d/C11.json "fuzz"); by hand:
//
//	cd /verif && VERIF_FUZZING=1 GOFLAGS=-mod=mod GOPROXY=off GOSUMDB=off GOTOOLCHAIN=local \
//	  go test ./checks/c11 -run '^$' -fuzz '^FuzzPipeline$' -fuzztime 20m
//
// A panic fails the input; a fatal error (stack overflow) or a hang kills the
// fuzz worker, which `go test` reports with the input saved under
// testdata/fuzz/FuzzPipeline (unit "fuzz" then replays it in every run).
// Inputs that hit a root cause already listed in known_findings.d are skipped.
func FuzzPipeline(f *testing.F) {
	known := vk.FuzzStart(f)
	names, data := fuzzSeeds()
	for _, n := range names {
		f.Add(data[n], false)
	}
	f.Fuzz(func(t *testing.T, in []byte, strict bool) {
		if len(in) > 256<<10 {
			t.Skip()
		}
		done := make(chan verdict, 1)
		go func() { done <- runPipeline(request{Name: "fuzz-input", Data: in, Strict: strict}) }()
		select {
		case v := <-done:
			if fnd := totality(v, "fuzz input", shape{}); fnd != nil {
				vk.FuzzVerdict(t, known, fnd)
			}
		case <-time.After(10 * time.Minute):
			panic("C11: pipeline did not return within 10 minutes")
		}
	})
}
