package c11

import (
	"os"
	"path/filepath"
	"sort"
	"strings"
	"sync"
	"testing"

	yaml3 "gopkg.in/yaml.v3"
)

func TestMain(m *testing.M) {
	if os.Getenv("C11_WORKER") != "" {
		workerMain()
		os.Exit(0)
	}
	code := m.Run()
	workers.closeAll()
	os.Exit(code)
}

func repoDir() string {
	if d := os.Getenv("VERIF_REPO"); d != "" {
		return d
	}
	return "/repo"
}

type baseSpec struct {
	Rel  string // path relative to _testdata, e.g. "positive/anyOf.json"
	Data []byte

	once   sync.Once
	tree   *node // nil when the file cannot be used as a mutation base
	reason string
	sites  *siteIndex
}

var (
	corpusOnce  sync.Once
	corpusFiles []*baseSpec // positive + examples, non-empty, sorted by Rel
	negFiles    []*baseSpec // negative fixtures (seeds for bytes/fuzz only)
	corpusByRel = map[string]*baseSpec{}
)

func loadCorpus() {
	corpusOnce.Do(func() {
		root := filepath.Join(repoDir(), "_testdata")
		for _, sub := range []string{"positive", "examples", "negative"} {
			_ = filepath.Walk(filepath.Join(root, sub), func(p string, fi os.FileInfo, err error) error {
				if err != nil || fi.IsDir() {
					return nil
				}
				switch strings.ToLower(filepath.Ext(p)) {
				case ".json", ".yml", ".yaml":
				default:
					return nil
				}
				data, err := os.ReadFile(p)
				if err != nil || len(data) == 0 { // k8s.json is deliberately empty
					return nil
				}
				rel, _ := filepath.Rel(root, p)
				b := &baseSpec{Rel: filepath.ToSlash(rel), Data: data}
				if sub == "negative" {
					negFiles = append(negFiles, b)
				} else {
					corpusFiles = append(corpusFiles, b)
				}
				corpusByRel[b.Rel] = b
				return nil
			})
		}
		sort.Slice(corpusFiles, func(i, j int) bool { return corpusFiles[i].Rel < corpusFiles[j].Rel })
		sort.Slice(negFiles, func(i, j int) bool { return negFiles[i].Rel < negFiles[j].Rel })
	})
}

// Tree parses the base lazily into the ordered tree.
func (b *baseSpec) Tree() *node {
	b.once.Do(func() {
		var doc yaml3.Node
		if err := yaml3.Unmarshal(b.Data, &doc); err != nil {
			b.reason = "yaml.v3 cannot parse: " + err.Error()
			return
		}
		t, ok := fromYAML(&doc, 0)
		if !ok || t.K != kMap {
			b.reason = "not expressible as an ordered JSON tree"
			return
		}
		b.tree = t
		b.sites = collectSites(t)
	})
	return b.tree
}
