package c11

import (
	"fmt"
	"os"
	"regexp"
	"sort"
	"strconv"
	"strings"

	"verif/internal/vk"
)

// ---- oracle A: totality ----------------------------------------------------------

var (
	funcRe    = regexp.MustCompile(`(?m)^((?:github\.com/ogen-go/ogen|github\.com/go-faster/(?:yaml|jx|errors))[^\s]*)\(.*\n\t(\S+\.go):(\d+)`)
	genericRe = regexp.MustCompile(`\[[^\]]*\]`)
	closureRe = regexp.MustCompile(`\.func\d+(\.\d+)*$`)
	slugRe    = regexp.MustCompile(`[^a-z0-9]+`)
)

// topFrame names the root-cause site of a panic / fatal stack: the innermost
// function of ogen (or of its YAML/JSON front end) below the LAST panic() frame
// (ogen re-panics from deferred handlers such as gen.handleSchemaDepth). For a
// recovered panic the text of the source line is appended as a slug, so that two
// different faults inside one large function get different classifiers.
func topFrame(stack string, withLine bool) string {
	if i := strings.LastIndex(stack, "\npanic("); i >= 0 {
		stack = stack[i:]
	}
	for _, m := range funcRe.FindAllStringSubmatch(stack, -1) {
		fn := m[1]
		if strings.Contains(fn, "/checks/c11") {
			continue
		}
		fn = strings.TrimPrefix(fn, "github.com/ogen-go/ogen/")
		fn = strings.TrimPrefix(fn, "github.com/ogen-go/")
		fn = strings.TrimPrefix(fn, "github.com/go-faster/")
		fn = genericRe.ReplaceAllString(fn, "")
		fn = closureRe.ReplaceAllString(fn, "")
		fn = strings.NewReplacer("(*", "", ")", "", "/", "-", ".", "-", "_", "-").Replace(fn)
		fn = strings.ToLower(strings.Trim(fn, "-"))
		if withLine {
			if n, err := strconv.Atoi(m[3]); err == nil {
				if src, err := os.ReadFile(m[2]); err == nil {
					if lines := strings.Split(string(src), "\n"); n >= 1 && n <= len(lines) {
						slug := strings.Trim(slugRe.ReplaceAllString(strings.ToLower(lines[n-1]), "-"), "-")
						if len(slug) > 48 {
							slug = strings.Trim(slug[:48], "-")
						}
						if slug != "" {
							fn += "--" + slug
						}
					}
				}
			}
		}
		return fn
	}
	return "unknown"
}

// shape is what the classifier predicates may look at besides the verdict.
type shape struct {
	Fault   string // fault family label ("" for byte-level inputs)
	Arg     string
	KeyPath []string // pointer tokens of the faulted place in the base document
}

func (s shape) under(key string) bool {
	for _, k := range s.KeyPath {
		if k == key {
			return true
		}
	}
	return false
}

// totality turns a verdict into a finding of oracle A (nil: returned ok or an
// error value). The classifier names the root cause: kind of failure + the
// innermost ogen function on the stack, refined by the input shape where the
// function alone is too generic (template execution).
func totality(v verdict, spelling string, sh shape) *vk.Finding {
	switch v.Class {
	case "ok", "error":
		return nil
	case "panic":
		return vk.F("panic-"+v.Top, "%s spelling: panic in stage %s: %s\n%s", spelling, v.Stage, v.Panic, clip(v.Stack, 1800))
	case "watchdog":
		return vk.F("hang-"+v.Top, "%s spelling: no result within the confirmation budget (%s, %d ms CPU), worker killed\n%s", spelling, v.Stage, v.CPUMS, clip(v.Stderr, 1500))
	case "died":
		switch {
		case v.ExitCode == exitMemoryCeiling || strings.Contains(v.Stderr, "C11-MEMORY-CEILING"):
			return vk.F("memory-ceiling", "%s spelling: worker exceeded the %d MiB RSS ceiling after %d ms: %s", spelling, memCeilingBytes>>20, v.MS, clip(v.Stderr, 300))
		case strings.Contains(v.Stderr, "stack overflow") || strings.Contains(v.Stderr, "goroutine stack exceeds"):
			return vk.F("stack-overflow-"+v.Top, "%s spelling: fatal stack overflow (Go's default 1 GiB goroutine stack) killed the process\n%s", spelling, clip(v.Stderr, 1800))
		case strings.Contains(v.Stderr, "out of memory"):
			return vk.F("out-of-memory", "%s spelling: fatal out of memory\n%s", spelling, clip(v.Stderr, 1200))
		default:
			return vk.F("worker-died-"+v.Top, "%s spelling: the process ended (exit code %d) instead of returning\n%s", spelling, v.ExitCode, clip(v.Stderr, 1800))
		}
	}
	return vk.F("harness-bad-verdict", "unknown verdict class %q", v.Class)
}

// ---- oracle B(1): the position is inside the document ------------------------------

func inDocument(l locInfo, ix *docIndex, lines []string, fileName string) *vk.Finding {
	if l.Line == 0 {
		return nil
	}
	if l.Line < 1 || l.Line > len(lines) {
		return vk.F("position-outside-document", "reported line %d, the document has %d lines (%s: %s)", l.Line, len(lines), l.Kind, clip(l.Msg, 200))
	}
	if l.Col < 0 || l.Col > len(lines[l.Line-1])+1 {
		return vk.F("position-outside-line", "reported %d:%d, line %d has %d bytes (%s: %s)", l.Line, l.Col, l.Line, len(lines[l.Line-1]), l.Kind, clip(l.Msg, 200))
	}
	if (l.Kind == "error" || l.Kind == "report") && l.File != "" && l.File != fileName {
		return vk.F("position-wrong-file", "reported file %q, the document was given as %q (%s)", l.File, fileName, clip(l.Msg, 200))
	}
	return nil
}

func splitLines(b []byte) []string {
	lines := strings.Split(string(b), "\n")
	if n := len(lines); n > 0 && lines[n-1] == "" {
		lines = lines[:n-1]
	}
	return lines
}

// ---- oracle B(2): the position is attributable to the fault -------------------------

// refTokens parses a local reference "#/a/b" into pointer tokens.
func refTokens(s string) ([]string, bool) {
	i := strings.IndexByte(s, '#')
	if i < 0 {
		return nil, false
	}
	frag := s[i+1:]
	if frag == "" {
		return []string{}, true
	}
	if !strings.HasPrefix(frag, "/") {
		return nil, false
	}
	var out []string
	for _, t := range strings.Split(frag[1:], "/") {
		if u, err := urlUnescape(t); err == nil {
			t = u
		}
		t = strings.ReplaceAll(t, "~1", "/")
		t = strings.ReplaceAll(t, "~0", "~")
		out = append(out, t)
	}
	return out, true
}

func urlUnescape(s string) (string, error) {
	if !strings.Contains(s, "%") {
		return s, nil
	}
	var b strings.Builder
	for i := 0; i < len(s); i++ {
		if s[i] == '%' {
			if i+2 > len(s)-1 {
				return "", fmt.Errorf("bad escape")
			}
			v, err := strconv.ParseUint(s[i+1:i+3], 16, 8)
			if err != nil {
				return "", err
			}
			b.WriteByte(byte(v))
			i += 2
			continue
		}
		b.WriteByte(s[i])
	}
	return b.String(), nil
}

func tokPrefix(a, b []string) bool {
	if len(a) > len(b) {
		return false
	}
	for i := range a {
		if a[i] != b[i] {
			return false
		}
	}
	return true
}

func tokRelated(a, b []string) bool { return tokPrefix(a, b) || tokPrefix(b, a) }

type refUse struct {
	holder    []int    // index path of the object (or sequence) that holds the reference string
	holderKey []string // its key path
	target    []string
}

func collectRefs(root *node) []refUse {
	var out []refUse
	var walk func(n *node, path []int, keys []string)
	walk = func(n *node, path []int, keys []string) {
		for i, k := range n.Kids {
			tok := strconv.Itoa(i)
			if n.K == kMap {
				tok = n.Keys[i]
			}
			if k.K == kStr && strings.Contains(k.S, "#") {
				if t, ok := refTokens(k.S); ok {
					out = append(out, refUse{holder: append([]int{}, path...), holderKey: append([]string{}, keys...), target: t})
				}
			}
			walk(k, append(path, i), append(keys, tok))
		}
	}
	walk(root, nil, nil)
	return out
}

// referrers: objects that reach the faulted place through (chains of) local references.
func referrers(tree *node, a applied) [][]int {
	refs := collectRefs(tree)
	targets := [][]string{a.Target, tree.keyPath(a.Fault)}
	var out [][]int
	used := make([]bool, len(refs))
	for changed := true; changed; {
		changed = false
		for i, r := range refs {
			if used[i] {
				continue
			}
			for _, t := range targets {
				if tokRelated(r.target, t) {
					used[i] = true
					out = append(out, r.holder)
					targets = append(targets, r.holderKey)
					changed = true
					break
				}
			}
		}
	}
	return out
}

// resolveTokens follows pointer tokens to an index path.
func resolveTokens(root *node, tokens []string) ([]int, bool) {
	var path []int
	n := root
outer:
	for _, t := range tokens {
		switch n.K {
		case kMap:
			for i, k := range n.Keys {
				if k == t {
					path = append(path, i)
					n = n.Kids[i]
					continue outer
				}
			}
			return nil, false
		case kSeq:
			i, err := strconv.Atoi(t)
			if err != nil || i < 0 || i >= len(n.Kids) {
				return nil, false
			}
			path = append(path, i)
			n = n.Kids[i]
		default:
			return nil, false
		}
	}
	return path, true
}

// referencedFrom lists the subtrees reachable from the subtree at `from`
// through (chains of) local references.
func referencedFrom(tree *node, from []int) [][]int {
	refs := collectRefs(tree)
	regions := [][]int{from}
	var out [][]int
	used := make([]bool, len(refs))
	for changed := true; changed && len(out) < 64; {
		changed = false
		for i, r := range refs {
			if used[i] {
				continue
			}
			for _, reg := range regions {
				if isPrefix(reg, r.holder) {
					used[i] = true
					if t, ok := resolveTokens(tree, r.target); ok && len(t) > 0 {
						out = append(out, t)
						regions = append(regions, t)
						changed = true
					}
					break
				}
			}
		}
	}
	return out
}

func subtreeHasName(n *node, names []string, budget *int) bool {
	if n == nil || *budget <= 0 {
		return false
	}
	*budget--
	match := func(s string) bool {
		for _, name := range names {
			if name == "" {
				continue
			}
			if s == name || strings.Contains(s, "{"+name+"}") || strings.HasSuffix(s, "/"+name) {
				return true
			}
		}
		return false
	}
	if n.K != kMap && n.K != kSeq {
		return match(n.S)
	}
	for i, k := range n.Kids {
		if n.K == kMap && match(n.Keys[i]) {
			return true
		}
		if subtreeHasName(k, names, budget) {
			return true
		}
	}
	return false
}

// attribute classifies a reported position against the fault. The answer is a
// label; "unattributed" is the only one that is not an acceptance.
func attribute(a applied, ix *docIndex, l locInfo) string {
	var cands []posNode
	if l.Col == 0 {
		cands = ix.onLine(l.Line)
	} else {
		cands = ix.at(l.Line, l.Col)
	}
	if len(cands) == 0 {
		return "not-at-a-node-start"
	}
	enclosing := a.Fault
	if a.Label != "delete" && len(enclosing) > 0 {
		enclosing = enclosing[:len(enclosing)-1]
	}
	// an element deleted from a LIST (a.Fault is the list): the object that owns the list is the
	// enclosing one (the path item whose `parameters` lost its only entry: the missing parameter is
	// legitimately noticed at an operation of that path item)
	if a.Label == "delete" && len(enclosing) > 0 && a.Tree != nil {
		if n := a.Tree.at(enclosing); n != nil && n.K == kSeq {
			enclosing = enclosing[:len(enclosing)-1]
		}
	}
	// a fault on the $ref member itself: {"$ref": …} stands for the referenced
	// object, the object that owns it (media type, parameter) is the enclosing one
	if n := len(a.Target); n > 0 && a.Target[n-1] == "$ref" && len(enclosing) > 0 {
		enclosing = enclosing[:len(enclosing)-1]
	}
	best := ""
	for _, c := range cands {
		switch {
		case len(c.Path) == len(a.Fault) && isPrefix(c.Path, a.Fault):
			return "at-fault"
		case isPrefix(a.Fault, c.Path):
			best = "inside-fault"
		case isPrefix(c.Path, a.Fault) && best == "":
			best = "ancestor-of-fault"
		}
	}
	if best != "" {
		return best
	}
	for _, c := range cands {
		for _, p := range a.Parts {
			if related(c.Path, p) {
				return "participant"
			}
		}
	}
	for _, c := range cands {
		if isPrefix(enclosing, c.Path) {
			return "enclosing-object"
		}
	}
	for _, h := range referrers(a.Tree, a) {
		// h holds the reference string ({"$ref": …}); the object that has h as a
		// member (media type, parameter, property list) is where a consequence
		// of the fault may legitimately be noticed
		owner := h
		if len(owner) > 0 {
			owner = owner[:len(owner)-1]
		}
		for _, c := range cands {
			if related(c.Path, h) || isPrefix(owner, c.Path) {
				return "referrer"
			}
		}
	}
	// forward: the enclosing object of the fault (a parameter, a media type, …)
	// is made of its own members AND of what it references; a combination that
	// the fault makes invalid may be reported at the referenced part
	// (explode:null → "invalid schema.type:style:explode" at the $ref'd schema's type)
	for _, t := range referencedFrom(a.Tree, enclosing) {
		for _, c := range cands {
			if isPrefix(t, c.Path) {
				return "referenced-by-enclosing-object"
			}
		}
	}
	if len(a.Names) > 0 {
		for _, c := range cands {
			// a key on the way to the reported node carries the name (path template "/x/{name}")
			for _, k := range a.Tree.keyPath(c.Path) {
				for _, name := range a.Names {
					if name != "" && (k == name || strings.Contains(k, "{"+name+"}")) {
						return "by-name"
					}
				}
			}
			p := c.Path
			if len(p) > 0 {
				p = p[:len(p)-1]
			}
			budget := 20000
			if subtreeHasName(a.Tree.at(p), a.Names, &budget) {
				return "by-name"
			}
			if c.IsKey {
				if par := a.Tree.at(p); par != nil && par.K == kMap {
					for _, name := range a.Names {
						k := par.Keys[c.Path[len(c.Path)-1]]
						if k == name || strings.Contains(k, "{"+name+"}") {
							return "by-name"
						}
					}
				}
			}
		}
	}
	return "unattributed"
}

// ---- oracle B(3): the two spellings agree ------------------------------------------------

var (
	posTok  = regexp.MustCompile(`\b\d+:\d+\b`)
	lineTok = regexp.MustCompile(`\bline \d+\b`)
	atTok   = regexp.MustCompile(`\bat (F:)?\d+\b`)
)

// stripPositions removes file names and position tokens from a message.
func stripPositions(msg string, files ...string) string {
	for _, f := range files {
		msg = strings.ReplaceAll(msg, f, "F")
	}
	msg = posTok.ReplaceAllString(msg, "P")
	msg = lineTok.ReplaceAllString(msg, "line P")
	msg = atTok.ReplaceAllString(msg, "at P")
	msg = strings.ReplaceAll(msg, "F:P", "P")
	return msg
}

func candKey(p posNode) string {
	if p.IsKey {
		return pathStr(p.Path) + "@key"
	}
	return pathStr(p.Path)
}

func candSet(ix *docIndex, l locInfo) map[string]bool {
	var cands []posNode
	if l.Col == 0 {
		cands = ix.onLine(l.Line)
	} else {
		cands = ix.at(l.Line, l.Col)
	}
	out := map[string]bool{}
	for _, c := range cands {
		out[candKey(c)] = true
	}
	return out
}

func setStr(m map[string]bool) string {
	var ks []string
	for k := range m {
		ks = append(ks, k)
	}
	sort.Strings(ks)
	return "{" + strings.Join(ks, " ") + "}"
}

func describePath(tree *node, p []int) string {
	return pointerOf(tree.keyPath(p))
}
