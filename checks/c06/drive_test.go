package c06

import (
	"encoding/json"
	"fmt"
	"net/http"
	"net/url"
	"strconv"
	"strings"

	"github.com/go-faster/errors"

	"github.com/ogen-go/ogen/uri"
	"github.com/ogen-go/ogen/validate"
)

// S is a byte string that survives JSON (replay files): it is stored as the
// body of a Go string literal (\xNN for bytes that are not valid UTF-8).
type S string

func (s S) MarshalJSON() ([]byte, error) {
	q := strconv.QuoteToASCII(string(s))
	return json.Marshal(q[1 : len(q)-1])
}

func (s *S) UnmarshalJSON(b []byte) error {
	var body string
	if err := json.Unmarshal(b, &body); err != nil {
		return err
	}
	v, err := strconv.Unquote(`"` + body + `"`)
	if err != nil {
		return fmt.Errorf("S: %q: %w", body, err)
	}
	*s = S(v)
	return nil
}

// Field is one declared property of an object parameter (Shape object) or one
// entry of a map parameter (Shape map*), in declaration / iteration order.
type Field struct {
	Name     S    `json:"name"`
	Val      S    `json:"val"`
	Required bool `json:"required,omitempty"` // object: listed in the schema's "required"
	Unset    bool `json:"unset,omitempty"`    // object: optional property that the caller left unset
}

// Case is one (combination, value) pair.
type Case struct {
	Combo
	Name     string  `json:"name"`     // parameter name
	Required bool    `json:"required"` // parameter is required (always true in path)
	Absent   bool    `json:"absent"`   // optional parameter the caller left unset (Opt not set / nil slice)
	Prim     S       `json:"prim,omitempty"`
	Items    []S     `json:"items,omitempty"`
	Fields   []Field `json:"fields,omitempty"`
}

func (c Case) key() string {
	var b strings.Builder
	fmt.Fprintf(&b, "%s|%s|%v|%v|", c.Combo, c.Name, c.Required, c.Absent)
	b.WriteString(string(c.Prim))
	for _, it := range c.Items {
		b.WriteString("\x00i")
		b.WriteString(string(it))
	}
	for _, f := range c.Fields {
		fmt.Fprintf(&b, "\x00f%v%v", f.Required, f.Unset)
		b.WriteString(string(f.Name))
		b.WriteString("\x01")
		b.WriteString(string(f.Val))
	}
	return b.String()
}

// setFields are the fields that really carry a value.
func (c Case) setFields() []Field {
	var out []Field
	for _, f := range c.Fields {
		if !f.Unset {
			out = append(out, f)
		}
	}
	return out
}

// isEmptyValue: the value is an empty collection (or the parameter is unset).
func (c Case) emptyCollection() bool {
	switch c.Shape {
	case shArray:
		return len(c.Items) == 0
	case shObject, shMap, shMapOfArray, shMapOfObject, shObjWithMap, shObjWithObj:
		return len(c.setFields()) == 0
	}
	return false
}

// ---- client side: what oas_client_gen.go does --------------------------------
//
// The functions below are transliterations of gen/_template/uri/encode.tmpl,
// uri/encoders_struct.tmpl, uri/encoders_map.tmpl and parameter_encode.tmpl for
// the shapes of this check (conv.StringToString is the identity).

// encodeParameter is the body of template "encode_parameter".
func encodeParameter(c Case) func(e uri.Encoder) error {
	return func(e uri.Encoder) error {
		switch c.Shape {
		case shPrim:
			if c.Required {
				return e.EncodeValue(string(c.Prim))
			}
			// OptString
			if !c.Absent {
				return e.EncodeValue(string(c.Prim))
			}
			return nil
		case shArray:
			enc := func() error {
				return e.EncodeArray(func(e uri.Encoder) error {
					for i, item := range c.Items {
						if err := func() error {
							return e.EncodeValue(string(item))
						}(); err != nil {
							return errors.Wrapf(err, "[%d]", i)
						}
					}
					return nil
				})
			}
			if c.Required {
				return enc() // NilSemantic.Invalid
			}
			if !c.Absent { // params.P != nil
				return enc()
			}
			return nil
		case shObject, shMap, shMapOfArray, shMapOfObject, shObjWithArr, shObjWithMap, shObjWithObj:
			if !c.Required && c.Absent { // OptX not set
				return nil
			}
			return encodeURI(c, e)
		case shArrOfArr:
			return e.EncodeArray(func(e uri.Encoder) error {
				for _, f := range c.Fields {
					if err := e.EncodeArray(func(e uri.Encoder) error {
						return e.EncodeValue(string(f.Val))
					}); err != nil {
						return err
					}
				}
				return nil
			})
		case shArrOfObj:
			return e.EncodeArray(func(e uri.Encoder) error {
				for _, f := range c.Fields {
					f := f
					// item.EncodeURI(e) of struct{a OptString}
					if err := e.EncodeField("a", func(e uri.Encoder) error {
						return e.EncodeValue(string(f.Val))
					}); err != nil {
						return err
					}
				}
				return nil
			})
		}
		panic("harness: unknown shape " + c.Shape)
	}
}

// encodeURI is the generated EncodeURI method of the struct / map type.
func encodeURI(c Case, e uri.Encoder) error {
	switch c.Shape {
	case shObject:
		for _, f := range c.Fields {
			f := f
			if err := e.EncodeField(string(f.Name), func(e uri.Encoder) error {
				if f.Required {
					return e.EncodeValue(string(f.Val))
				}
				if !f.Unset { // if val, ok := s.F.Get(); ok
					return e.EncodeValue(string(f.Val))
				}
				return nil
			}); err != nil {
				return errors.Wrap(err, "encode field")
			}
		}
		return nil
	case shMap:
		for _, f := range c.Fields { // for k, elem := range s
			f := f
			if err := e.EncodeField(string(f.Name), func(e uri.Encoder) error {
				return e.EncodeValue(string(f.Val))
			}); err != nil {
				return errors.Wrapf(err, "encode field %q", f.Name)
			}
		}
		return nil
	case shMapOfArray:
		for _, f := range c.Fields {
			f := f
			if err := e.EncodeField(string(f.Name), func(e uri.Encoder) error {
				return e.EncodeArray(func(e uri.Encoder) error {
					for _, item := range []string{string(f.Val)} {
						if err := e.EncodeValue(item); err != nil {
							return err
						}
					}
					return nil
				})
			}); err != nil {
				return errors.Wrapf(err, "encode field %q", f.Name)
			}
		}
		return nil
	case shObjWithArr:
		// struct{a []string}: one declared property "a" holding the values
		return e.EncodeField("a", func(e uri.Encoder) error {
			return e.EncodeArray(func(e uri.Encoder) error {
				for _, f := range c.Fields {
					if err := e.EncodeValue(string(f.Val)); err != nil {
						return err
					}
				}
				return nil
			})
		})
	case shObjWithMap, shObjWithObj:
		// struct{a map[string]string} / struct{a struct{b string}}: the member's EncodeURI writes fields
		return e.EncodeField("a", func(e uri.Encoder) error {
			for _, f := range c.Fields {
				f := f
				name := string(f.Name)
				if c.Shape == shObjWithObj {
					name = "b"
				}
				if err := e.EncodeField(name, func(e uri.Encoder) error { return e.EncodeValue(string(f.Val)) }); err != nil {
					return err
				}
			}
			return nil
		})
	case shMapOfObject:
		for _, f := range c.Fields {
			f := f
			if err := e.EncodeField(string(f.Name), func(e uri.Encoder) error {
				// elem.EncodeURI(e) of struct{a OptString}
				return e.EncodeField("a", func(e uri.Encoder) error {
					return e.EncodeValue(string(f.Val))
				})
			}); err != nil {
				return errors.Wrapf(err, "encode field %q", f.Name)
			}
		}
		return nil
	}
	panic("harness: unknown shape " + c.Shape)
}

// Wire is what leaves the client for one parameter.
type Wire struct {
	Path   string      // raw (escaped) path part
	Query  string      // raw query string
	Header http.Header // request header (header and cookie parameters)
}

func (w Wire) String() string {
	switch {
	case w.Header != nil:
		return fmt.Sprintf("%q", map[string][]string(w.Header))
	case w.Path != "":
		return fmt.Sprintf("path %q", w.Path)
	default:
		return fmt.Sprintf("query %q", w.Query)
	}
}

// clientEncode is the parameter section of the generated client method.
func clientEncode(c Case) (Wire, error) {
	switch c.Loc {
	case "path":
		e := uri.NewPathEncoder(uri.PathEncoderConfig{
			Param:   c.Name,
			Style:   uri.PathStyle(c.Style),
			Explode: c.Explode,
		})
		if err := encodeParameter(c)(e); err != nil {
			return Wire{}, errors.Wrap(err, "encode path")
		}
		encoded, err := e.Result()
		if err != nil {
			return Wire{}, errors.Wrap(err, "encode path")
		}
		return Wire{Path: encoded}, nil
	case "query":
		q := uri.NewQueryEncoder()
		cfg := uri.QueryParameterEncodingConfig{
			Name:    c.Name,
			Style:   uri.QueryStyle(c.Style),
			Explode: c.Explode,
		}
		if err := q.EncodeParam(cfg, encodeParameter(c)); err != nil {
			return Wire{}, errors.Wrap(err, "encode query")
		}
		return Wire{Query: q.Values().Encode()}, nil
	case "header":
		hdr := http.Header{}
		h := uri.NewHeaderEncoder(hdr)
		cfg := uri.HeaderParameterEncodingConfig{
			Name:    c.Name,
			Explode: c.Explode,
		}
		if err := h.EncodeParam(cfg, encodeParameter(c)); err != nil {
			return Wire{}, errors.Wrap(err, "encode header")
		}
		return Wire{Header: hdr}, nil
	case "cookie":
		r := &http.Request{Header: http.Header{}}
		cookie := uri.NewCookieEncoder(r)
		cfg := uri.CookieParameterEncodingConfig{
			Name:    c.Name,
			Explode: c.Explode,
		}
		if err := cookie.EncodeParam(cfg, encodeParameter(c)); err != nil {
			return Wire{}, errors.Wrap(err, "encode cookie")
		}
		return Wire{Header: r.Header}, nil
	}
	panic("harness: unknown location " + c.Loc)
}

// ---- server side: what oas_parameters_gen.go does ---------------------------------

// Decoded is the parameter value the handler would see.
type Decoded struct {
	Missing bool // optional parameter not found: the field keeps its zero value
	Prim    string
	Items   []string
	Obj     map[string]string
	Calls   []string // the DecodeFields callbacks, in order (diagnostics)
}

var errRequiredMissing = errors.New("required parameter missing")

// decodeParameter is the body of template "decode_parameter" (uri/decode.tmpl).
func decodeParameter(c Case, out *Decoded) func(d uri.Decoder) error {
	return func(d uri.Decoder) error {
		switch c.Shape {
		case shPrim:
			val, err := d.DecodeValue()
			if err != nil {
				return err
			}
			out.Prim = val
			return nil
		case shArray:
			return d.DecodeArray(func(d uri.Decoder) error {
				val, err := d.DecodeValue()
				if err != nil {
					return err
				}
				out.Items = append(out.Items, val)
				return nil
			})
		case shObject:
			// generated DecodeURI of the struct
			out.Obj = map[string]string{}
			seenRequired := map[string]bool{}
			if err := d.DecodeFields(func(k string, d uri.Decoder) error {
				out.Calls = append(out.Calls, k)
				for _, f := range c.Fields {
					if string(f.Name) != k {
						continue
					}
					if f.Required {
						seenRequired[k] = true
					}
					val, err := d.DecodeValue()
					if err != nil {
						return errors.Wrapf(err, "decode field %q", k)
					}
					out.Obj[k] = val
					return nil
				}
				return nil // default: unknown keys are ignored (additionalProperties not false)
			}); err != nil {
				return errors.Wrap(err, "decode struct")
			}
			for _, f := range c.Fields {
				if f.Required && !seenRequired[string(f.Name)] {
					return &validate.Error{Fields: []validate.FieldError{{Name: string(f.Name), Error: validate.ErrFieldRequired}}}
				}
			}
			return nil
		case shMap:
			out.Obj = map[string]string{}
			if err := d.DecodeFields(func(k string, d uri.Decoder) error {
				out.Calls = append(out.Calls, k)
				val, err := d.DecodeValue()
				if err != nil {
					return errors.Wrapf(err, "decode field %q", k)
				}
				out.Obj[k] = val
				return nil
			}); err != nil {
				return errors.Wrap(err, "decode map")
			}
			return nil
		case shMapOfArray:
			out.Obj = map[string]string{}
			return d.DecodeFields(func(k string, d uri.Decoder) error {
				var elem []string
				if err := d.DecodeArray(func(d uri.Decoder) error {
					val, err := d.DecodeValue()
					if err != nil {
						return err
					}
					elem = append(elem, val)
					return nil
				}); err != nil {
					return err
				}
				out.Obj[k] = strings.Join(elem, "\x00")
				return nil
			})
		case shObjWithMap, shObjWithObj:
			out.Obj = map[string]string{}
			return d.DecodeFields(func(k string, d uri.Decoder) error {
				if k != "a" {
					return nil
				}
				return d.DecodeFields(func(k2 string, d uri.Decoder) error {
					val, err := d.DecodeValue()
					if err != nil {
						return err
					}
					out.Obj[k2] = val
					return nil
				})
			})
		case shObjWithArr:
			out.Obj = map[string]string{}
			return d.DecodeFields(func(k string, d uri.Decoder) error {
				if k != "a" {
					return nil
				}
				return d.DecodeArray(func(d uri.Decoder) error {
					val, err := d.DecodeValue()
					if err != nil {
						return err
					}
					out.Obj["a"] += val + "\x00"
					return nil
				})
			})
		case shArrOfArr:
			return d.DecodeArray(func(d uri.Decoder) error {
				return d.DecodeArray(func(d uri.Decoder) error {
					val, err := d.DecodeValue()
					if err != nil {
						return err
					}
					out.Items = append(out.Items, val)
					return nil
				})
			})
		case shArrOfObj:
			return d.DecodeArray(func(d uri.Decoder) error {
				return d.DecodeFields(func(k string, d uri.Decoder) error {
					val, err := d.DecodeValue()
					if err != nil {
						return err
					}
					out.Items = append(out.Items, k+"="+val)
					return nil
				})
			})
		case shMapOfObject:
			out.Obj = map[string]string{}
			return d.DecodeFields(func(k string, d uri.Decoder) error {
				return d.DecodeFields(func(k2 string, d uri.Decoder) error {
					val, err := d.DecodeValue()
					if err != nil {
						return err
					}
					out.Obj[k+"."+k2] = val
					return nil
				})
			})
		}
		panic("harness: unknown shape " + c.Shape)
	}
}

// objectFieldsLiteral is template function paramObjectFields: only struct
// parameters get a Fields list (gen/templates.go isObjectParam).
func objectFieldsLiteral(c Case) []uri.QueryParameterObjectField {
	if c.Shape == shObjWithArr || c.Shape == shObjWithMap || c.Shape == shObjWithObj {
		return []uri.QueryParameterObjectField{{Name: "a", Required: false}}
	}
	if c.Shape != shObject {
		return nil
	}
	fields := make([]uri.QueryParameterObjectField, 0, len(c.Fields))
	for _, f := range c.Fields {
		fields = append(fields, uri.QueryParameterObjectField{Name: string(f.Name), Required: f.Required})
	}
	return fields
}

// serverDecode is decodeXxxParams for the one parameter. pathArg is the router
// argument (already unescaped once, as with argsEscaped handling).
func serverDecode(c Case, pathArg string, query url.Values, hdr http.Header) (out Decoded, _ error) {
	switch c.Loc {
	case "path":
		param := pathArg
		if len(param) > 0 {
			d := uri.NewPathDecoder(uri.PathDecoderConfig{
				Param:   c.Name,
				Value:   param,
				Style:   uri.PathStyle(c.Style),
				Explode: c.Explode,
			})
			if err := decodeParameter(c, &out)(d); err != nil {
				return out, err
			}
			return out, nil
		}
		return out, validate.ErrFieldRequired
	case "query":
		q := uri.NewQueryDecoder(query)
		cfg := uri.QueryParameterDecodingConfig{
			Name:    c.Name,
			Style:   uri.QueryStyle(c.Style),
			Explode: c.Explode,
		}
		if c.Shape == shObject || c.Shape == shObjWithArr || c.Shape == shObjWithMap || c.Shape == shObjWithObj { // {{- if isObjectParam $p }}
			cfg.Fields = objectFieldsLiteral(c)
		}
		if err := q.HasParam(cfg); err == nil {
			if err := q.DecodeParam(cfg, decodeParameter(c, &out)); err != nil {
				return out, err
			}
		} else if c.Required {
			return out, errors.Wrap(errRequiredMissing, err.Error())
		} else {
			out.Missing = true
		}
		return out, nil
	case "header":
		h := uri.NewHeaderDecoder(hdr)
		cfg := uri.HeaderParameterDecodingConfig{
			Name:    c.Name,
			Explode: c.Explode,
		}
		if err := h.HasParam(cfg); err == nil {
			if err := h.DecodeParam(cfg, decodeParameter(c, &out)); err != nil {
				return out, err
			}
		} else if c.Required {
			return out, errors.Wrap(errRequiredMissing, err.Error())
		} else {
			out.Missing = true
		}
		return out, nil
	case "cookie":
		r := &http.Request{Header: hdr}
		cd := uri.NewCookieDecoder(r)
		cfg := uri.CookieParameterDecodingConfig{
			Name:    c.Name,
			Explode: c.Explode,
		}
		if err := cd.HasParam(cfg); err == nil {
			if err := cd.DecodeParam(cfg, decodeParameter(c, &out)); err != nil {
				return out, err
			}
		} else if c.Required {
			return out, errors.Wrap(errRequiredMissing, err.Error())
		} else {
			out.Missing = true
		}
		return out, nil
	}
	panic("harness: unknown location " + c.Loc)
}
