package c06

// Unit "admission-shared": the verdict of the parser's style table and of the generator's parameter
// checks about one parameter must not depend on what else refers to the same component schema. For
// every shape, every combination that is admitted alone (first parameter) is put in front of every
// combination of the whole cross product (second parameter), both parameters referring to ONE
// component schema by $ref. Oracle: the two-parameter document passes ogen.Parse + gen.NewGenerator
// exactly when each parameter alone does (single-parameter table of the admission unit, stages
// parse/generate). All pairs, in one operation and in two, in both tiers (a few thousand documents).

import (
	"fmt"
	"runtime/debug"
	"strings"
	"testing"

	"github.com/ogen-go/ogen"
	"github.com/ogen-go/ogen/gen"

	"verif/internal/vk"
)

type sharedCase struct {
	First  Combo `json:"first"`
	Second Combo `json:"second"`
	TwoOps bool  `json:"two_ops"` // the parameters sit in two operations instead of one
}

func paramJSON(c Combo, name string) string {
	if c.Loc == "header" {
		name = "X-" + strings.ToUpper(name)
	}
	return fmt.Sprintf(`{"name":%q,"in":%q,"style":%q,"explode":%v,"required":true,"schema":{"$ref":"#/components/schemas/S"}}`, name, c.Loc, c.Style, c.Explode)
}

func sharedSpec(c sharedCase) string {
	seg := func(cb Combo, name string) string {
		if cb.Loc == "path" {
			return "/{" + name + "}"
		}
		return ""
	}
	comps := fmt.Sprintf(`"components":{"schemas":{"S":%s}}`, shapeSchema[c.First.Shape])
	if c.TwoOps {
		return fmt.Sprintf(`{"openapi":"3.0.3","info":{"title":"t","version":"1"},"paths":{%q:{"get":{"operationId":"op1","parameters":[%s],"responses":{"200":{"description":"ok"}}}},%q:{"get":{"operationId":"op2","parameters":[%s],"responses":{"200":{"description":"ok"}}}}},%s}`,
			"/a"+seg(c.First, "p1"), paramJSON(c.First, "p1"), "/b"+seg(c.Second, "p2"), paramJSON(c.Second, "p2"), comps)
	}
	return fmt.Sprintf(`{"openapi":"3.0.3","info":{"title":"t","version":"1"},"paths":{%q:{"get":{"operationId":"op","parameters":[%s,%s],"responses":{"200":{"description":"ok"}}}}},%s}`,
		"/t"+seg(c.First, "p1")+seg(c.Second, "p2"), paramJSON(c.First, "p1"), paramJSON(c.Second, "p2"), comps)
}

// passesAlone: the single-parameter document gets through parser and generator.
func passesAlone(c Combo) bool {
	tab, _ := admissionOf()
	switch tab[c].Stage {
	case "parse", "generate", "panic":
		return false
	}
	return true
}

func checkShared(c sharedCase) (f *vk.Finding) {
	defer func() {
		if r := recover(); r != nil {
			f = vk.F("admission-panic", "%v: parser/generator panics on two parameters sharing one schema: %v\n%s", c, r, trimStack(string(debug.Stack())))
		}
	}()
	want := passesAlone(c.First) && passesAlone(c.Second)
	got := true
	reason := ""
	spec, err := ogen.Parse([]byte(sharedSpec(c)))
	if err == nil {
		_, err = gen.NewGenerator(spec, gen.Options{})
	}
	if err != nil {
		got, reason = false, lastLine(err)
	}
	switch {
	case want && !got:
		return vk.F("shared-schema-pair-rejected", "%s then %s over one component schema: each is admitted alone, together the document is refused: %s", c.First, c.Second, reason)
	case !want && got:
		return vk.F("shared-schema-pair-admitted", "%s then %s over one component schema: the document is admitted although %s alone is refused (%s)", c.First, c.Second, c.Second, admReason(c))
	}
	return nil
}

func admReason(c sharedCase) string {
	tab, _ := admissionOf()
	if !passesAlone(c.First) {
		return tab[c.First].Reason
	}
	return tab[c.Second].Reason
}

func trimStack(s string) string {
	if len(s) > 1200 {
		return s[:1200]
	}
	return s
}

func TestAdmissionShared(t *testing.T) {
	u := vk.New(t, "C06", "admission-shared")
	defer u.Close()
	if c, ok := vk.ReplayOnly[sharedCase](u); ok {
		u.Eval(1)
		u.Report(checkShared(c), c)
		return
	}
	if vk.InReplay() {
		return
	}
	shard, shards := vk.Shard()
	i := 0
	for _, first := range allCombos() {
		if !passesAlone(first) {
			continue
		}
		for _, second := range allCombos() {
			if second.Shape != first.Shape {
				continue
			}
			for _, two := range []bool{false, true} {
				i++
				if i%shards != shard {
					continue
				}
				c := sharedCase{First: first, Second: second, TwoOps: two}
				vk.Each(u, c, checkShared)
				u.Label(fmt.Sprintf("second-alone-passes=%v", passesAlone(second)))
				u.NonTrivialCount(1)
			}
		}
	}
	u.SetExhaustive(true)
}
