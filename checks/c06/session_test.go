package c06

import (
	"fmt"
	"net/http"
	"net/url"
	"reflect"
	"strings"
	"testing"

	"pgregory.net/rapid"

	"github.com/ogen-go/ogen/uri"

	"verif/internal/vk"
)

// Unit "sessions": the generated client creates ONE QueryEncoder / HeaderEncoder / CookieEncoder per
// request and sends every parameter of that location through it; the generated server reads them all
// from one decoder. The other units give every (combination, value) a fresh encoder. Here 2-4
// parameters of one location share the encoder and the decoder, and each must decode to exactly what it
// decodes to when it travels alone (a metamorphic relation: the company of other parameters changes
// nothing). The single-parameter behaviour itself is judged by the other units.

type sessionCase struct {
	Params []Case `json:"params"`
}

func drawSession(t *rapid.T) sessionCase {
	loc := rapid.SampledFrom([]string{"query", "query", "header", "cookie"}).Draw(t, "loc")
	n := rapid.IntRange(2, 4).Draw(t, "n")
	var sc sessionCase
	used := map[string]bool{}
	for tries := 0; len(sc.Params) < n && tries < 40; tries++ {
		c := drawCase(t)
		if c.Loc != loc || !isValueShape(c.Shape) {
			continue
		}
		c.Name = fmt.Sprintf("%s%d", map[string]string{"query": "q", "header": "X-H", "cookie": "c"}[loc], len(sc.Params))
		// names that two pairs of one query string would share are a recorded root cause of their own
		// (exploded objects write their members as plain pairs): keep all names of a session distinct
		names := []string{strings.ToLower(c.Name)}
		for _, f := range c.Fields {
			names = append(names, strings.ToLower(string(f.Name)))
		}
		clash := false
		for _, nm := range names {
			if used[nm] {
				clash = true
			}
		}
		if clash {
			continue
		}
		for _, nm := range names {
			used[nm] = true
		}
		sc.Params = append(sc.Params, c)
	}
	return sc
}

// encodeSession sends the parameters through one encoder; alone[i] reports whether parameter i is
// refused when it travels alone (then it is left out of the session, as a caller could not send it).
func encodeSession(sc sessionCase) (w Wire, sent []bool, err error) {
	sent = make([]bool, len(sc.Params))
	if len(sc.Params) == 0 {
		return w, sent, nil
	}
	switch sc.Params[0].Loc {
	case "query":
		q := uri.NewQueryEncoder()
		for i, c := range sc.Params {
			if _, e := clientEncode(c); e != nil {
				continue
			}
			cfg := uri.QueryParameterEncodingConfig{Name: c.Name, Style: uri.QueryStyle(c.Style), Explode: c.Explode}
			if e := q.EncodeParam(cfg, encodeParameter(c)); e != nil {
				return w, sent, fmt.Errorf("parameter %d (%s) is accepted alone but refused in company: %w", i, c.Name, e)
			}
			sent[i] = true
		}
		w.Query = q.Values().Encode()
	case "header":
		hdr := http.Header{}
		h := uri.NewHeaderEncoder(hdr)
		for i, c := range sc.Params {
			if _, e := clientEncode(c); e != nil {
				continue
			}
			cfg := uri.HeaderParameterEncodingConfig{Name: c.Name, Explode: c.Explode}
			if e := h.EncodeParam(cfg, encodeParameter(c)); e != nil {
				return w, sent, fmt.Errorf("parameter %d (%s) is accepted alone but refused in company: %w", i, c.Name, e)
			}
			sent[i] = true
		}
		w.Header = hdr
	case "cookie":
		r := &http.Request{Header: http.Header{}}
		ck := uri.NewCookieEncoder(r)
		for i, c := range sc.Params {
			if _, e := clientEncode(c); e != nil {
				continue
			}
			cfg := uri.CookieParameterEncodingConfig{Name: c.Name, Explode: c.Explode}
			if e := ck.EncodeParam(cfg, encodeParameter(c)); e != nil {
				return w, sent, fmt.Errorf("parameter %d (%s) is accepted alone but refused in company: %w", i, c.Name, e)
			}
			sent[i] = true
		}
		w.Header = r.Header
	}
	return w, sent, nil
}

func decodeFrom(c Case, w Wire) (Decoded, error) {
	var q url.Values
	if c.Loc == "query" {
		var err error
		if q, err = url.ParseQuery(w.Query); err != nil {
			return Decoded{}, err
		}
	}
	return serverDecode(c, "", q, w.Header)
}

func checkSession(sc sessionCase) *vk.Finding {
	if len(sc.Params) < 2 {
		return nil
	}
	return vk.Guard("session-panic", func() *vk.Finding {
		all, sent, err := encodeSession(sc)
		if err != nil {
			return vk.F("session-refuses-parameter", "%v", err)
		}
		for i, c := range sc.Params {
			if !sent[i] {
				continue
			}
			alone, _ := clientEncode(c)
			want, wantErr := decodeFrom(c, alone)
			got, gotErr := decodeFrom(c, all)
			want.Calls, got.Calls = nil, nil
			if (wantErr != nil) != (gotErr != nil) || wantErr == nil && !reflect.DeepEqual(want, got) {
				return vk.F("parameter-changed-by-company", "%s parameter %d of %d (%s %s=%s): alone it travels as %s and decodes to %s (err %v); sent through one encoder with the others the wire is %s and it decodes to %s (err %v)",
					c.Loc, i, len(sc.Params), c.Combo, c.Name, valueString(c), alone, decodedString(c, want), wantErr, all, decodedString(c, got), gotErr)
			}
		}
		return nil
	})
}

var regressSessions = []sessionCase{
	{Params: []Case{
		{Combo: Combo{"query", "form", true, shArray}, Name: "q0", Required: true, Items: []S{"3", "4", "5"}},
		{Combo: Combo{"query", "form", true, shArray}, Name: "q1", Required: true, Items: []S{"a", "b"}},
	}},
	{Params: []Case{
		{Combo: Combo{"header", "simple", false, shArray}, Name: "X-H0", Required: true, Items: []S{"3", "4", "5"}},
		{Combo: Combo{"header", "simple", false, shPrim}, Name: "X-H1", Required: true, Prim: "a"},
		{Combo: Combo{"header", "simple", true, shObject}, Name: "X-H2", Required: true, Fields: []Field{{Name: "r", Val: "1", Required: true}}},
	}},
	{Params: []Case{
		{Combo: Combo{"cookie", "form", false, shArray}, Name: "c0", Required: true, Items: []S{"3", "4", "5"}},
		{Combo: Combo{"cookie", "form", false, shPrim}, Name: "c1", Required: true, Prim: "a"},
	}},
}

func TestSessions(t *testing.T) {
	u := vk.New(t, "C06", "sessions")
	defer u.Close()
	admitted := map[Combo]bool{}
	for _, cb := range admittedCombos(valueShapes...) {
		admitted[cb] = true
	}
	var regress []sessionCase
	for _, sc := range regressSessions {
		ok := true
		for _, c := range sc.Params {
			ok = ok && admitted[c.Combo]
		}
		if ok {
			regress = append(regress, sc)
		}
	}
	vk.Rapid(u, vk.N(30_000, 1_500_000), regress, drawSession, func(sc sessionCase) *vk.Finding {
		for _, c := range sc.Params {
			if !admitted[c.Combo] {
				u.Label("replayed-combination-no-longer-admitted")
				return nil
			}
		}
		if len(sc.Params) >= 2 {
			u.Label(fmt.Sprintf("%s:%d-parameters", sc.Params[0].Loc, len(sc.Params)))
			arrays := 0
			for _, c := range sc.Params {
				if c.Shape == shArray && len(c.Items) > 0 && !c.Absent {
					arrays++
				}
			}
			if arrays >= 2 {
				u.Label("two-or-more-arrays")
			}
			var key strings.Builder
			for _, c := range sc.Params {
				key.WriteString(c.key())
				key.WriteByte(0)
			}
			u.NonTrivial(key.String())
			u.Sample(sc)
		} else {
			u.Label("fewer-than-two-parameters")
		}
		return checkSession(sc)
	})
}

func FuzzSessions(f *testing.F) { vk.FuzzUnit(f, TestSessions, 0) }
