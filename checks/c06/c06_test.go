// Package c06 decides property C06 (parameter serialization follows the
// OpenAPI style table and is lossless) at the library level: the public
// uri.New*Encoder / New*Decoder APIs are driven with exactly the callback
// shapes the templates emit (drive_test.go), for every combination the real
// parser and generator admit (admission_test.go), against a reference
// serializer written from the style table (ref_test.go).
package c06

import (
	"fmt"
	"io"
	"log"
	"net/url"
	"os"
	"strings"
	"testing"

	"github.com/go-faster/errors"

	"verif/internal/vk"
)

func TestMain(m *testing.M) {
	// net/http logs when it drops an invalid cookie byte; the check sees the
	// effect on the wire, the log line is noise.
	log.SetOutput(io.Discard)
	// gen/write.go dumps a source file it cannot format into the working
	// directory (property names with a quote do that): keep those out of the tree
	if dir, err := os.MkdirTemp("", "c06-wd-"); err == nil {
		if os.Chdir(dir) == nil {
			defer os.RemoveAll(dir)
		}
	}
	code := m.Run()
	if dir, err := os.Getwd(); err == nil && strings.Contains(dir, "c06-wd-") {
		os.RemoveAll(dir)
	}
	os.Exit(code)
}

// Outcome is everything observed for one case (kept for labels and samples).
type Outcome struct {
	Class      valueClass
	Refused    bool
	EncErr     string
	Wire       string
	RefDefined bool
	DecErr     string
	Findings   []*vk.Finding
}

func decodedString(c Case, d Decoded) string {
	if d.Missing {
		return "(missing)"
	}
	switch c.Shape {
	case shPrim:
		return fmt.Sprintf("%q", d.Prim)
	case shArray:
		return fmt.Sprintf("%q", d.Items)
	default:
		var parts []string
		for _, k := range sortedKeys(d.Obj) {
			parts = append(parts, fmt.Sprintf("%q:%q", k, d.Obj[k]))
		}
		return "{" + strings.Join(parts, ",") + "}"
	}
}

func valueString(c Case) string {
	if c.Absent {
		return "(unset)"
	}
	switch c.Shape {
	case shPrim:
		return fmt.Sprintf("%q", string(c.Prim))
	case shArray:
		items := make([]string, len(c.Items))
		for i, it := range c.Items {
			items[i] = string(it)
		}
		return fmt.Sprintf("%q", items)
	default:
		var parts []string
		for _, f := range c.Fields {
			if f.Unset {
				parts = append(parts, fmt.Sprintf("%q:(unset)", string(f.Name)))
			} else {
				parts = append(parts, fmt.Sprintf("%q:%q", string(f.Name), string(f.Val)))
			}
		}
		return "{" + strings.Join(parts, ",") + "}"
	}
}

// sameValue compares at the level URI serialization can express: nil, empty
// and absent collections are one value; an unset optional primitive is
// "missing".
func sameValue(c Case, d Decoded) bool {
	switch c.Shape {
	case shPrim:
		if c.Absent {
			return d.Missing
		}
		return !d.Missing && d.Prim == string(c.Prim)
	case shArray:
		if len(c.Items) != len(d.Items) {
			return false
		}
		for i := range c.Items {
			if string(c.Items[i]) != d.Items[i] {
				return false
			}
		}
		return true
	case shObject, shMap:
		want := map[string]string{}
		if !c.Absent {
			for _, f := range c.setFields() {
				want[string(f.Name)] = string(f.Val)
			}
		}
		if len(want) != len(d.Obj) {
			return false
		}
		for k, v := range want {
			if got, ok := d.Obj[k]; !ok || got != v {
				return false
			}
		}
		return true
	}
	return false
}

func lastEmpty(c Case) bool {
	switch c.Shape {
	case shPrim:
		return c.Prim == ""
	case shArray:
		return len(c.Items) > 0 && c.Items[len(c.Items)-1] == ""
	case shObject, shMap:
		fs := c.setFields()
		return len(fs) > 0 && fs[len(fs)-1].Val == ""
	}
	return false
}

// evaluate runs one case through client and server and applies the oracles.
func evaluate(c Case) (o Outcome) {
	add := func(f *vk.Finding) { o.Findings = append(o.Findings, f) }
	o.Class = classify(c)

	// ---- client ----
	var (
		w      Wire
		encErr error
	)
	if f := vk.Guard("encoder-panic", func() *vk.Finding {
		w, encErr = clientEncode(c)
		return nil
	}); f != nil {
		f.Classifier = panicClassifier(c, "encoder", f.What)
		f.What = fmt.Sprintf("%s %s=%s: encoder %s", c.Combo, c.Name, valueString(c), f.What)
		add(f)
		return o
	}
	if encErr != nil {
		o.Refused, o.EncErr = true, encErr.Error()
		// a refusal is only a finding where the style table defines a serialization: for its n/a cells
		// (an empty value or empty collection in a path segment, ...) an error is a legitimate answer
		if _, defined := refSerialize(c); o.Class == classClean && defined {
			add(vk.F(refusedClassifier(c), "%s %s=%s: no piece contains a delimiter of this serialization, but the encoder refuses: %v",
				c.Combo, c.Name, valueString(c), encErr))
		}
		return o
	}
	o.Wire = w.String()
	if o.Class == classMustRefuse {
		add(vk.F("active-delimiter-not-refused", "%s %s=%s: a piece contains the active delimiter (%+v) but the encoder sends %s",
			c.Combo, c.Name, valueString(c), delimitersOf(c.Combo), o.Wire))
		return o
	}

	// ---- carrier: legality of the raw text, comparison with the style table ----
	ref, defined := refSerialize(c)
	if c.Absent {
		defined = false
	}
	o.RefDefined = defined
	var (
		pathArg string
		query   url.Values
	)
	switch c.Loc {
	case "path":
		if i, bad := illegalPchar(w.Path, ""); bad {
			add(vk.F("path-wire-illegal", "%s %s=%s: path part %q contains %q, which RFC 3986 does not allow raw in a segment",
				c.Combo, c.Name, valueString(c), w.Path, w.Path[i]))
		}
		un, err := url.PathUnescape(w.Path)
		if err != nil {
			add(vk.F("path-wire-illegal", "%s %s=%s: path part %q does not unescape: %v", c.Combo, c.Name, valueString(c), w.Path, err))
			return o
		}
		pathArg = un
		if defined && un != ref.Text {
			add(vk.F(wireClassifier(c, un, ref.Text), "%s %s=%s: path part %q reads %q, the style table prescribes %q",
				c.Combo, c.Name, valueString(c), w.Path, un, ref.Text))
		}
	case "query":
		if i, bad := illegalPchar(w.Query, "/?"); bad {
			add(vk.F("query-wire-illegal", "%s %s=%s: query %q contains raw %q", c.Combo, c.Name, valueString(c), w.Query, w.Query[i]))
		}
		q, err := url.ParseQuery(w.Query)
		if err != nil {
			add(vk.F("query-wire-illegal", "%s %s=%s: query %q does not parse: %v", c.Combo, c.Name, valueString(c), w.Query, err))
			return o
		}
		query = q
		if defined && !valuesEqual(q, ref.Query) {
			add(vk.F(wireClassifier(c, w.Query, ref.Query.Encode()), "%s %s=%s: query %q, the style table prescribes %q",
				c.Combo, c.Name, valueString(c), w.Query, ref.Query.Encode()))
		}
	case "header":
		vs := w.Header.Values(c.Name)
		if defined {
			if len(vs) != 1 || trimOWS(vs[0]) != trimOWS(ref.Text) {
				add(vk.F(wireClassifier(c, strings.Join(vs, "\n"), ref.Text), "%s %s=%s: header values %q, the style table prescribes %q",
					c.Combo, c.Name, valueString(c), vs, ref.Text))
			}
		}
	case "cookie":
		if len(w.Header) == 0 {
			if defined {
				add(vk.F("wire-differs-from-style-table", "%s %s=%s: no cookie sent, the style table prescribes %q",
					c.Combo, c.Name, valueString(c), c.Name+"="+ref.Text))
			}
			break
		}
		raw, ok := cookieHeaderValue(w.Header, c.Name)
		if !ok {
			add(vk.F("cookie-wire-illegal", "%s %s=%s: Cookie header %q is not one %s=value pair", c.Combo, c.Name, valueString(c), w.Header["Cookie"], c.Name))
			break
		}
		for i := 0; i < len(raw); i++ {
			if !isCookieOctet(raw[i]) {
				add(vk.F("cookie-wire-illegal", "%s %s=%s: cookie-value %q contains %q, not a cookie-octet (RFC 6265)", c.Combo, c.Name, valueString(c), raw, raw[i]))
				break
			}
		}
		un, ok := refUnescapeCookie(raw)
		if !ok {
			add(vk.F("cookie-escape-not-inverse", "%s %s=%s: cookie-value %q is not valid %%XX escaping", c.Combo, c.Name, valueString(c), raw))
		} else if defined && un != ref.Text {
			add(vk.F(wireClassifier(c, un, ref.Text), "%s %s=%s: cookie-value %q reads %q, the style table prescribes %q",
				c.Combo, c.Name, valueString(c), raw, un, ref.Text))
		}
	}

	// ---- server ----
	var (
		dec    Decoded
		decErr error
	)
	if f := vk.Guard("decoder-panic", func() *vk.Finding {
		dec, decErr = serverDecode(c, pathArg, query, w.Header)
		return nil
	}); f != nil {
		f.Classifier = panicClassifier(c, "decoder", f.What)
		f.What = fmt.Sprintf("%s %s=%s: decoder on %s %s", c.Combo, c.Name, valueString(c), o.Wire, f.What)
		add(f)
		return o
	}
	if !isValueShape(c.Shape) {
		return o // nested shape: only "admitted ⇒ no panic" is demanded
	}
	if decErr != nil && errors.Is(decErr, errRequiredMissing) && c.emptyCollection() && !wirePresent(c, w) {
		// an empty collection may be sent as "absent" (RFC 6570: an empty list
		// or map is undefined); a required parameter then reads as missing,
		// which is the same value at this level
		dec, decErr = Decoded{Missing: true}, nil
	}
	if decErr != nil {
		o.DecErr = decErr.Error()
		if !recoverable(c, defined) {
			return o // a cell the table does not define: nothing has to come back
		}
		add(vk.F(decodeErrClassifier(c, w, decErr), "%s %s=%s: encoder sends %s, the matching decoder fails: %v",
			c.Combo, c.Name, valueString(c), o.Wire, decErr))
		return o
	}
	if !sameValue(c, dec) {
		add(vk.F(lossClassifier(c, w, dec), "%s %s=%s: encoder sends %s, the matching decoder returns %s",
			c.Combo, c.Name, valueString(c), o.Wire, decodedString(c, dec)))
	}
	return o
}

// recoverable: must the decoder give the value back? Yes wherever the table
// defines a serialization, and for empty collections outside the path (the
// wire may legitimately be "absent", which reads back as empty). The cells
// the table marks n/a — an empty path segment — need not come back, but if
// something comes back without error it must still be the value sent.
func recoverable(c Case, defined bool) bool {
	if defined {
		return true
	}
	if c.Loc == "path" {
		return false // empty string in simple style / empty collection: no segment to carry it
	}
	return true
}

// wirePresent: does the wire carry anything at all for the parameter?
func wirePresent(c Case, w Wire) bool {
	switch c.Loc {
	case "path":
		return w.Path != ""
	case "query":
		return w.Query != ""
	default:
		return len(w.Header) > 0
	}
}

// ---- classifiers: the root-cause shape, decided by predicates over the case --------------

func panicClassifier(c Case, side, what string) string {
	switch c.Shape {
	case shMapOfArray, shMapOfObject:
		// map whose item type is itself an array/object: isParamAllowed does not
		// look at KindMap's item
		if strings.Contains(what, "nested arrays not allowed") || strings.Contains(what, "nested objects not allowed") ||
			strings.Contains(what, "its a value, not a") {
			return "map-nested-item-admitted-panic"
		}
	case shObjWithMap, shObjWithObj:
		// a map / object nested in an object parameter: isParamAllowed has no root check for KindMap
		if strings.Contains(what, "nested objects not allowed") || strings.Contains(what, "its a value, not a") {
			return "object-nested-map-admitted-panic"
		}
		return "nested-shape-admitted-" + side + "-panic"
	case shObjWithArr, shArrOfArr, shArrOfObj:
		return "nested-shape-admitted-" + side + "-panic"
	case shMap:
		// a map-typed path parameter whose map is empty: EncodeURI never calls the encoder
		if c.Loc == "path" && side == "encoder" && c.emptyCollection() && strings.Contains(what, "encoder was not called") {
			return "path-empty-map-encoder-panic"
		}
	}
	return side + "-panic"
}

func refusedClassifier(c Case) string {
	return "clean-value-refused"
}

func isEOF(err error) bool { return errors.Is(err, io.EOF) }

// matrixWithEquals is the matrix serialization with "=" written after every
// name even when the value is empty (RFC 6570 writes ";name" then).
func matrixWithEquals(c Case) (string, bool) {
	if c.Loc != "path" || c.Style != "matrix" {
		return "", false
	}
	switch c.Shape {
	case shPrim:
		return ";" + c.Name + "=" + string(c.Prim), true
	case shArray:
		if c.Explode {
			var b strings.Builder
			for _, it := range c.Items {
				b.WriteString(";" + c.Name + "=" + string(it))
			}
			return b.String(), true
		}
	case shObject, shMap:
		if c.Explode {
			var b strings.Builder
			for _, f := range c.setFields() {
				b.WriteString(";" + string(f.Name) + "=" + string(f.Val))
			}
			return b.String(), true
		}
	}
	return "", false
}

func wireClassifier(c Case, got, want string) string {
	if alt, ok := matrixWithEquals(c); ok && alt == got && alt != want {
		return "matrix-empty-value-equals-sign"
	}
	return "wire-differs-from-style-table"
}

// queryExplodedMap: free-form keys spread over the query string (form
// explode=true: k=v; deepObject: p[k]=v). The decoder only ever looks for the
// declared property names, of which a map has none.
func queryExplodedMap(c Case) bool {
	return c.Loc == "query" && c.Explode && c.Shape == shMap && !c.emptyCollection()
}

func decodeErrClassifier(c Case, w Wire, err error) string {
	switch {
	case queryExplodedMap(c) && errors.Is(err, errRequiredMissing):
		return "query-exploded-map-undecodable"
	case isEOF(err) && c.Shape == shObject && c.emptyCollection() && wirePresent(c, w):
		// all optional properties unset: "p=" / empty header is sent and then not understood
		return "empty-object-sent-but-undecodable"
	case isEOF(err) && lastEmpty(c):
		// the text ends right after a prefix or delimiter; cursor.readValue/readAll call that io.EOF
		return "decoder-eof-on-trailing-empty-value"
	}
	return "decoder-rejects-own-encoding"
}

func lossClassifier(c Case, w Wire, d Decoded) string {
	switch {
	case queryExplodedMap(c) && len(d.Obj) == 0:
		return "query-exploded-map-undecodable"
	case c.Shape == shArray && c.Loc == "query" && c.Style == "form" && !c.Explode &&
		len(c.Items) == 1 && c.Items[0] == "" && len(d.Items) == 0:
		return "form-array-single-empty-item-lost"
	case c.Shape == shArray && len(c.Items) == 0 && !c.Absent && wirePresent(c, w) &&
		len(d.Items) == 1 && d.Items[0] == "":
		return "empty-array-read-back-as-single-empty-item"
	}
	return "value-changed-silently"
}

// pick returns the finding to report for a case: the first one that is not a
// known finding (so that a new violation is never hidden behind a known one),
// else the first known one.
func pick(u *vk.Unit, fs []*vk.Finding) *vk.Finding {
	for _, f := range fs {
		if !u.Known(f.Classifier) {
			return f
		}
	}
	if len(fs) > 0 {
		return fs[0]
	}
	return nil
}
