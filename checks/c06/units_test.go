package c06

import (
	"fmt"
	"sort"
	"strings"
	"sync"
	"testing"
	"unicode/utf8"

	"pgregory.net/rapid"

	"verif/internal/vk"
)

var valueShapes = []string{shPrim, shArray, shObject, shMap}

func isValueShape(s string) bool {
	for _, v := range valueShapes {
		if v == s {
			return true
		}
	}
	return false
}

// ---- unit: admission -----------------------------------------------------------------

type admCase struct {
	Combo
	Required bool `json:"required"`
}

// the ir shapes drive_test.go transliterates; anything else means the
// generator types parameters differently now and the harness is stale
var modelledIR = map[string][]string{
	shPrim:   {"string", "Opt<string>"},
	shArray:  {"[]string"},
	shObject: {"struct{a:string,b:Opt<string>}", "Opt<struct{a:string,b:Opt<string>}>"},
	shMap:    {"map<string>", "Opt<map<string>>"},
}

func checkAdmission(c admCase) *vk.Finding {
	return checkAdmitted(c, admit(c.Combo, c.Required))
}

func checkAdmitted(c admCase, a Admission) *vk.Finding {
	if a.Stage == "panic" {
		return vk.F("generator-panic", "%s required=%v: parser/generator panics: %s", c.Combo, c.Required, a.Reason)
	}
	if !a.Admitted {
		return nil
	}
	if want, ok := modelledIR[c.Shape]; ok {
		for _, w := range want {
			if a.IRKind == w {
				return nil
			}
		}
		return vk.F("harness-model-stale", "%s required=%v: generator types the parameter as %s, the harness models %v",
			c.Combo, c.Required, a.IRKind, want)
	}
	// a nested shape got through parser and generator: "admitted ⇒ neither side panics"
	vc := Case{Combo: c.Combo, Name: defaultName(c.Loc), Required: c.Required,
		Fields: []Field{{Name: "k", Val: "v"}}}
	o := evaluate(vc)
	if len(o.Findings) > 0 {
		return o.Findings[0]
	}
	return nil
}

func TestAdmission(t *testing.T) {
	u := vk.New(t, "C06", "admission")
	defer u.Close()
	if c, ok := vk.ReplayOnly[admCase](u); ok {
		u.Eval(1)
		if f := checkAdmission(c); f != nil {
			u.Report(f, c)
		}
		return
	}
	if vk.InReplay() {
		return
	}
	shard, shards := vk.Shard()
	_, all := admissionOf()
	u.SetExhaustive(true)
	// evidence: the observed table, one entry per (location, style, explode)
	rows := map[string]map[string]string{}
	i := 0
	for _, cb := range allCombos() {
		for _, req := range []bool{true, false} {
			a, ok := all[admKey(cb, req)]
			if !ok {
				continue // optional path parameters do not exist
			}
			i++
			cell := a.Stage
			if !a.Admitted {
				cell += ": " + a.Reason
			} else {
				cell += " as " + a.IRKind
			}
			k := fmt.Sprintf("%s/%s/explode=%v", cb.Loc, cb.Style, cb.Explode)
			if rows[k] == nil {
				rows[k] = map[string]string{}
			}
			if req {
				rows[k][cb.Shape] = cell
			} else if a.Admitted != all[admKey(cb, true)].Admitted {
				rows[k][cb.Shape+" (optional)"] = cell // admission depends on "required"
			}
			if (i-1)%shards != shard {
				continue
			}
			c := admCase{cb, req}
			vk.Each(u, c, func(c admCase) *vk.Finding { return checkAdmitted(c, a) })
			u.Label("stage:" + a.Stage)
			if a.Admitted {
				u.Label("admitted:" + cb.Loc + ":" + cb.Shape)
				if !isValueShape(cb.Shape) {
					u.Label("admitted-nested-shape")
				}
			}
			if a.Stage != "parse" {
				u.NonTrivialCount(1) // reached the generator
			}
		}
	}
	for k, shapes := range rows {
		// collapse a row that is rejected wholesale
		same, first := true, ""
		for _, v := range shapes {
			if first == "" {
				first = v
			} else if v != first {
				same = false
			}
		}
		if same && !strings.HasPrefix(first, "admitted") {
			u.Set("table:"+k, first)
			continue
		}
		u.Set("table:"+k, shapes)
	}
	u.Set("rows", len(all))
}

// ---- unit: exhaustive ------------------------------------------------------------------

func symbols(s S) int { return utf8.RuneCountInString(string(s)) }

// within: is the value inside the bounds (so an earlier, smaller enumeration
// already visited it)?
func within(c Case, b enumBounds) bool {
	switch c.Shape {
	case shPrim:
		return symbols(c.Prim) <= b.PrimLen
	case shArray:
		if len(c.Items) > b.MaxItems {
			return false
		}
		for _, it := range c.Items {
			if symbols(it) > b.ItemLen {
				return false
			}
		}
		return true
	default:
		if len(c.Fields) > b.MaxFields {
			return false
		}
		for _, f := range c.Fields {
			if symbols(f.Name) > b.FieldLen || symbols(f.Val) > b.FieldLen {
				return false
			}
		}
		return true
	}
}

func boundsForTier() []enumBounds {
	if vk.Tier() == "thorough" {
		return []enumBounds{
			{PrimLen: 4, ItemLen: 1, MaxItems: 4, FieldLen: 1, MaxFields: 2, PropLen: 1},
			{PrimLen: 0, ItemLen: 2, MaxItems: 2, FieldLen: 2, MaxFields: 1, PropLen: 2},
			// three fields: the delimiters, the escape byte and one plain symbol
			{PrimLen: 0, ItemLen: 3, MaxItems: 1, FieldLen: 1, MaxFields: 3, PropLen: 1, Symbols: []string{"a", ",", ".", ";", "=", "%"}},
		}
	}
	return []enumBounds{
		{PrimLen: 3, ItemLen: 1, MaxItems: 3, FieldLen: 1, MaxFields: 2, PropLen: 1},
		{PrimLen: 0, ItemLen: 2, MaxItems: 1, FieldLen: 2, MaxFields: 1, PropLen: 1},
	}
}

// caseLabels describes a case for the distribution statistics.
func outcomeLabel(o Outcome) string {
	switch {
	case len(o.Findings) > 0:
		return "finding:" + o.Findings[0].Classifier
	case o.Refused:
		return "refused-" + o.Class.String()
	case o.DecErr != "":
		return "sent-undefined-cell-not-decodable"
	case !o.RefDefined:
		return "roundtrip-ok-undefined-cell"
	case o.Class == classTolerated:
		return "roundtrip-ok-tolerated-delimiter"
	default:
		return "roundtrip-ok"
	}
}

func nonTrivial(c Case, o Outcome) bool {
	if o.Refused || o.Wire == "" && len(o.Findings) > 0 {
		return false
	}
	switch c.Shape {
	case shPrim:
		return c.Prim != "" && !c.Absent
	default:
		return !c.emptyCollection() && !c.Absent
	}
}

func report(u *vk.Unit, c Case, o Outcome) {
	// every finding of the case is handled: known ones are counted, a new one
	// becomes a violation even when a known one precedes it
	for _, f := range o.Findings {
		u.Report(f, c)
	}
}

func TestExhaustive(t *testing.T) {
	u := vk.New(t, "C06", "exhaustive")
	defer u.Close()
	if c, ok := vk.ReplayOnly[Case](u); ok {
		u.Eval(1)
		report(u, c, evaluate(c))
		return
	}
	if vk.InReplay() {
		return
	}
	shard, shards := vk.Shard()
	bounds := boundsForTier()
	u.Set("alphabet", strings.Join(alphabet, ""))
	u.Set("bounds", fmt.Sprintf("%+v", bounds))
	u.SetExhaustive(true)
	labels := map[string]int{}
	var idx int64
	evals, nt := 0, 0
	combos := admittedCombos(valueShapes...)
	u.Set("admitted_combinations", len(combos))
	for _, cb := range combos {
		for bi, b := range bounds {
			enumerate(cb, b, func(c Case) {
				for _, earlier := range bounds[:bi] {
					if within(c, earlier) {
						return
					}
				}
				idx++
				if (idx-1)%int64(shards) != int64(shard) {
					return
				}
				evals++
				o := evaluate(c)
				report(u, c, o)
				labels[cb.Loc+":"+cb.Shape]++
				labels["class:"+o.Class.String()]++
				labels[outcomeLabel(o)]++
				if nonTrivial(c, o) {
					nt++
					if nt%20011 == 1 {
						u.Sample(map[string]any{"combo": cb.String(), "value": valueString(c), "wire": o.Wire, "class": o.Class.String()})
					}
				}
			})
		}
	}
	u.Eval(evals)
	u.NonTrivialCount(nt)
	keys := make([]string, 0, len(labels))
	for k := range labels {
		keys = append(keys, k)
	}
	sort.Strings(keys)
	for _, k := range keys {
		u.LabelN(k, labels[k])
	}
}

// ---- unit: random ----------------------------------------------------------------------

var hostile = []string{
	"", " ", "  ", "\t", "%", "%2C", "%2c", "%zz", "%0", "a%2Fb", "+", "a+b", "a b", ".", "..", "...", "a.b", "a,b", "a;b", "a=b",
	"a|b", "a&b", "a/b", "a?b", "a#b", "[", "]", "p", "p=", ";p=", "p[a]", "\x00", "\r\n", "a\nb", "é", "\xff", "\xc3", "\u2028",
	"世界", "𝄞", "\"", "\\", "\"a\"", "a\\b", "\x7f", "null", "true", "0", "-1", "{}", "[]", "~", "_", "-", "'", "<>", "`", "^", "{", "}",
}

func drawString(t *rapid.T, label string) S {
	switch rapid.IntRange(0, 9).Draw(t, label+"-kind") {
	case 0, 1, 2:
		n := rapid.IntRange(0, 5).Draw(t, label+"-n")
		var b strings.Builder
		for i := 0; i < n; i++ {
			b.WriteString(rapid.SampledFrom(alphabet).Draw(t, label+"-sym"))
		}
		return S(b.String())
	case 3, 4:
		return S(rapid.SampledFrom(hostile).Draw(t, label+"-hostile"))
	case 5, 6:
		return S(rapid.StringN(0, 6, 24).Draw(t, label+"-uni"))
	case 7:
		return S(rapid.SliceOfN(rapid.Byte(), 0, 6).Draw(t, label+"-bytes"))
	case 8:
		return S(rapid.SampledFrom(hostile).Draw(t, label+"-h1") + rapid.SampledFrom(alphabet).Draw(t, label+"-s") +
			rapid.SampledFrom(hostile).Draw(t, label+"-h2"))
	default:
		return S(rapid.StringMatching(`[a-zA-Z0-9_-]{0,8}`).Draw(t, label+"-plain"))
	}
}

// declared property names for object parameters in the random unit: a pool of
// names the generator accepts one by one (sets are checked when drawn)
var namePool = []S{"a", "b", "R", "", ".", "=", "/", "+", " ", "a,", "a;", "a.b"}

var paramNames = map[string][]string{
	"path":   {"p", "color", "id"},
	"query":  {"p", "color", "id"},
	"header": {"X-P", "X-Color", "Accept-Language"},
	"cookie": {"p", "color", "id"},
}

// knownShape: does the case have one of the shapes of a classified (known)
// defect? All of them involve an empty string, an empty collection or a map
// spread over the query string; the generator can steer around them so that
// the search goes on behind them.
func knownShape(c Case) bool {
	if queryExplodedMap(c) {
		return true
	}
	if c.Absent {
		return false
	}
	switch c.Shape {
	case shPrim:
		return c.Prim == "" && c.Loc == "path" && c.Style != "simple" // ".", ";p="
	case shArray:
		if len(c.Items) == 0 {
			return true // [] read back as [""]
		}
		for _, it := range c.Items {
			if it == "" {
				return true // trailing-empty EOF, [""] read back as [], matrix "="
			}
		}
	case shObject, shMap:
		if c.emptyCollection() {
			return true // {} undecodable, empty path map panic
		}
		for _, f := range c.setFields() {
			if f.Val == "" {
				return true // trailing-empty EOF, matrix "="
			}
		}
	}
	return false
}

var (
	drawOnce        sync.Once
	drawCombos      []Combo // every admitted combination of the value shapes
	drawCombosAvoid []Combo // ... without the ones that are a known defect as such
)

func drawCase(t *rapid.T) Case {
	avoid := rapid.IntRange(0, 3).Draw(t, "avoidKnown") != 0
	drawOnce.Do(func() {
		drawCombos = admittedCombos(valueShapes...)
		// rapid favours small indexes: richest locations first
		rank := map[string]int{"path": 0, "query": 1, "header": 2, "cookie": 3}
		sort.SliceStable(drawCombos, func(i, j int) bool { return rank[drawCombos[i].Loc] < rank[drawCombos[j].Loc] })
		for _, cb := range drawCombos {
			if !(cb.Loc == "query" && cb.Explode && cb.Shape == shMap) {
				drawCombosAvoid = append(drawCombosAvoid, cb)
			}
		}
	})
	combos := drawCombos
	if avoid {
		combos = drawCombosAvoid
	}
	cb := rapid.SampledFrom(combos).Draw(t, "combo")
	c := Case{Combo: cb, Required: true}
	c.Name = rapid.SampledFrom(paramNames[cb.Loc]).Draw(t, "name")
	if cb.Loc != "path" {
		c.Required = rapid.Bool().Draw(t, "required")
		if !c.Required {
			c.Absent = rapid.IntRange(0, 9).Draw(t, "absent") == 0
		}
	}
	nonEmpty := func(s S) S {
		if avoid && s == "" {
			return "a"
		}
		return s
	}
	switch cb.Shape {
	case shPrim:
		c.Prim = nonEmpty(drawString(t, "prim"))
	case shArray:
		lo := 0
		if avoid {
			lo = 1
		}
		n := rapid.IntRange(lo, 5).Draw(t, "items")
		c.Items = []S{}
		for i := 0; i < n; i++ {
			c.Items = append(c.Items, nonEmpty(drawString(t, "item")))
		}
	case shMap:
		lo := 0
		if avoid {
			lo = 1
		}
		n := rapid.IntRange(lo, 4).Draw(t, "entries")
		seen := map[S]bool{}
		for i := 0; i < n; i++ {
			k := drawString(t, "key")
			if seen[k] {
				continue
			}
			seen[k] = true
			c.Fields = append(c.Fields, Field{Name: k, Val: nonEmpty(drawString(t, "val"))})
		}
		if avoid && len(c.Fields) == 0 {
			c.Fields = []Field{{Name: "k", Val: "v"}}
		}
	case shObject:
		n := rapid.IntRange(1, 3).Draw(t, "props")
		var names []S
		for i := 0; i < n; i++ {
			nm := rapid.SampledFrom(namePool).Draw(t, "prop")
			dup := false
			for _, x := range names {
				dup = dup || x == nm
			}
			if dup || !fieldNamesAdmitted(cb.Loc, append(append([]S(nil), names...), nm)) {
				continue
			}
			names = append(names, nm)
			f := Field{Name: nm, Required: rapid.Bool().Draw(t, "propRequired")}
			if !f.Required && rapid.IntRange(0, 3).Draw(t, "unset") == 0 {
				f.Unset = true
			} else {
				f.Val = nonEmpty(drawString(t, "val"))
			}
			c.Fields = append(c.Fields, f)
		}
		if len(c.Fields) == 0 {
			c.Fields = []Field{{Name: "a", Val: "v", Required: true}}
		}
		if avoid && c.emptyCollection() {
			c.Fields[0].Unset, c.Fields[0].Val = false, "v"
		}
	}
	if c.Absent {
		c.Prim, c.Items, c.Fields = "", nil, keepDeclared(c.Fields)
	}
	return c
}

// keepDeclared: an unset optional object parameter still has its declared
// properties (they are needed for the decoder's Fields list)
func keepDeclared(fs []Field) []Field {
	out := make([]Field, len(fs))
	for i, f := range fs {
		out[i] = Field{Name: f.Name, Required: f.Required, Unset: !f.Required}
	}
	return out
}

func stringTraits(c Case) (nonASCII, invalidUTF8, ctl bool) {
	each := func(s S) {
		if !utf8.ValidString(string(s)) {
			invalidUTF8 = true
		}
		for i := 0; i < len(s); i++ {
			if s[i] >= 0x80 {
				nonASCII = true
			}
			if s[i] < 0x20 || s[i] == 0x7f {
				ctl = true
			}
		}
	}
	each(c.Prim)
	for _, it := range c.Items {
		each(it)
	}
	for _, f := range c.Fields {
		each(f.Name)
		each(f.Val)
	}
	return
}

var regressCases = []Case{
	// documentation values of the style table
	{Combo: Combo{"path", "matrix", true, shArray}, Name: "color", Required: true, Items: []S{"blue", "black", "brown"}},
	{Combo: Combo{"path", "label", true, shMap}, Name: "color", Required: true, Fields: []Field{{Name: "R", Val: "100"}, {Name: "G", Val: "200"}, {Name: "B", Val: "150"}}},
	{Combo: Combo{"query", "deepObject", true, shObject}, Name: "color", Required: true, Fields: []Field{{Name: "R", Val: "100", Required: true}, {Name: "G", Val: "200"}}},
	{Combo: Combo{"query", "pipeDelimited", false, shArray}, Name: "color", Required: true, Items: []S{"blue", "black"}},
	// the probed defects
	{Combo: Combo{"path", "matrix", false, shPrim}, Name: "p", Required: true, Prim: ""},
	{Combo: Combo{"path", "label", false, shPrim}, Name: "p", Required: true, Prim: ""},
	{Combo: Combo{"query", "form", false, shArray}, Name: "a", Required: true, Items: []S{""}},
	{Combo: Combo{"header", "simple", false, shArray}, Name: "X-P", Required: true, Items: []S{}},
	{Combo: Combo{"query", "form", true, shMap}, Name: "p", Required: false, Fields: []Field{{Name: "k", Val: "v"}}},
	{Combo: Combo{"query", "form", true, shMap}, Name: "p", Required: false, Fields: []Field{{Name: "p", Val: "v"}}},
	{Combo: Combo{"query", "deepObject", true, shMap}, Name: "p", Required: true, Fields: []Field{{Name: "k", Val: "v"}}},
	{Combo: Combo{"path", "simple", false, shMap}, Name: "p", Required: true},
	{Combo: Combo{"cookie", "form", false, shObject}, Name: "p", Required: true, Fields: []Field{{Name: "a", Unset: true}}},
	{Combo: Combo{"path", "simple", true, shObject}, Name: "p", Required: true, Fields: []Field{{Name: "a", Val: "", Required: true}}},
	// delimiters, escapes
	{Combo: Combo{"path", "simple", false, shArray}, Name: "p", Required: true, Items: []S{"a,b"}},
	{Combo: Combo{"path", "label", true, shArray}, Name: "p", Required: true, Items: []S{"a.b", "c"}},
	{Combo: Combo{"path", "matrix", true, shArray}, Name: "p", Required: true, Items: []S{"a;b"}},
	{Combo: Combo{"path", "simple", false, shPrim}, Name: "p", Required: true, Prim: "a/b?c#d e%2F"},
	{Combo: Combo{"cookie", "form", false, shPrim}, Name: "p", Required: true, Prim: "a;b,c \"d\"\\%41\xff\x00"},
	{Combo: Combo{"header", "simple", true, shMap}, Name: "X-P", Required: true, Fields: []Field{{Name: "a=b", Val: "c"}}},
	{Combo: Combo{"header", "simple", true, shMap}, Name: "X-P", Required: true, Fields: []Field{{Name: "a", Val: "b=c"}}},
	{Combo: Combo{"query", "pipeDelimited", false, shArray}, Name: "p", Required: true, Items: []S{"a|b"}},
}

func TestRandom(t *testing.T) {
	u := vk.New(t, "C06", "random")
	defer u.Close()
	admitted := map[Combo]bool{}
	for _, cb := range admittedCombos(valueShapes...) {
		admitted[cb] = true
	}
	var regress []Case
	for _, c := range regressCases {
		if admitted[c.Combo] {
			regress = append(regress, c)
		}
	}
	vk.Rapid(u, vk.N(120_000, 4_000_000), regress, drawCase, func(c Case) *vk.Finding {
		if !admitted[c.Combo] {
			u.Label("replayed-combination-no-longer-admitted")
			return nil
		}
		o := evaluate(c)
		u.Label(c.Loc + ":" + c.Shape)
		u.Label("class:" + o.Class.String())
		u.Label(outcomeLabel(o))
		if knownShape(c) {
			u.Label("shape-of-a-known-defect")
		} else {
			u.Label("avoids-known-defect-shapes")
		}
		na, bad, ctl := stringTraits(c)
		if na {
			u.Label("non-ascii")
		}
		if bad {
			u.Label("invalid-utf8")
		}
		if ctl {
			u.Label("control-bytes")
		}
		if c.Absent {
			u.Label("optional-unset")
		}
		if nonTrivial(c, o) {
			u.NonTrivial(c.key())
			u.Sample(map[string]any{"combo": c.Combo.String(), "value": valueString(c), "wire": o.Wire})
		}
		// known findings beyond the first are counted too; a new one wins
		f := pick(u, o.Findings)
		for _, g := range o.Findings {
			if g != f && u.Known(g.Classifier) {
				u.Report(g, c)
			}
		}
		return f
	})
}

// ---- unit: cookie-escape ---------------------------------------------------------------

// checkCookieBytes drives a primitive cookie parameter with the byte string:
// the value on the wire is escapeCookie(s) (both functions are unexported).
func checkCookieBytes(c Case) *vk.Finding {
	o := evaluate(c)
	if len(o.Findings) > 0 {
		return o.Findings[0]
	}
	if o.Refused || o.DecErr != "" {
		return vk.F("cookie-escape-not-inverse", "cookie value %q: encoder error %q, decoder error %q", string(c.Prim), o.EncErr, o.DecErr)
	}
	return nil
}

func cookieCase(b []byte) Case {
	return Case{Combo: Combo{"cookie", "form", false, shPrim}, Name: "p", Required: true, Prim: S(b)}
}

func TestCookieEscape(t *testing.T) {
	u := vk.New(t, "C06", "cookie-escape")
	defer u.Close()
	if c, ok := vk.ReplayOnly[Case](u); ok {
		u.Eval(1)
		if f := checkCookieBytes(c); f != nil {
			u.Report(f, c)
		}
		return
	}
	if vk.InReplay() {
		return
	}
	if a := admissionOf; a != nil {
		tab, _ := a()
		if !tab[Combo{"cookie", "form", false, shPrim}].Admitted {
			u.Note("primitive cookie parameters are not admitted: nothing to check")
			return
		}
	}
	shard, shards := vk.Shard()
	maxLen := vk.N(2, 3)
	u.Set("max_len", maxLen)
	u.Set("byte_alphabet", "all 256 byte values")
	u.SetExhaustive(true)
	evals, nt := 0, 0
	var idx int64
	buf := make([]byte, 0, maxLen)
	var rec func(depth int)
	rec = func(depth int) {
		idx++
		if (idx-1)%int64(shards) == int64(shard) {
			evals++
			c := cookieCase(buf)
			if f := checkCookieBytes(c); f != nil {
				u.Report(f, c)
			}
			needs := false
			for _, x := range buf {
				if !isCookieOctet(x) || x == '%' {
					needs = true
				}
			}
			if needs {
				nt++
				if nt%400009 == 1 {
					u.Sample(map[string]any{"bytes": fmt.Sprintf("%q", buf)})
				}
			}
		}
		if depth == maxLen {
			return
		}
		for b := 0; b < 256; b++ {
			buf = append(buf, byte(b))
			rec(depth + 1)
			buf = buf[:depth]
		}
	}
	rec(0)
	u.Eval(evals)
	u.NonTrivialCount(nt)
	u.LabelN("enumerated", evals)
	u.LabelN("needs-escaping", nt)
}
