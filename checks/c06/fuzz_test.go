package c06

import (
	"testing"

	"verif/internal/vk"
)

// native fuzz target: generator and oracle of unit "random", driven by coverage
func FuzzRandom(f *testing.F) { vk.FuzzUnit(f, TestRandom, 0) }
