package c06

import (
	"net/http"
	"net/textproto"
	"net/url"
	"sort"
	"strings"
)

// ---- reference serializer: DESIGN.md Appendix D ------------------------------------
//
// Written from the OpenAPI style table (3.0.4 / 3.1.1, i.e. RFC 6570 §3.2 as
// the specification says the styles are defined). Nothing here looks at ogen.

// RefWire is the prescribed serialization at the comparison level of Appendix D.
type RefWire struct {
	Text  string     // path: text after one unescape; header: field value; cookie: cookie-value after %XX is undone
	Query url.Values // query: the pairs url.ParseQuery yields
}

// ifemp: RFC 6570 Appendix A: after a name, an empty value is written as ""
// for ";" (matrix) and "=" for "?"/"&" (form).
func matrixPair(name, val string) string {
	if val == "" {
		return ";" + name
	}
	return ";" + name + "=" + val
}

// refSerialize returns the prescribed wire form. defined=false marks cells
// for which the table prescribes nothing ("n/a" cells, empty collections —
// RFC 6570 treats an empty list/map as undefined, i.e. omitted, and OpenAPI
// 3.0 says nothing), so only losslessness and totality are checked there.
func refSerialize(c Case) (w RefWire, defined bool) {
	name := c.Name
	switch c.Shape {
	case shPrim:
		v := string(c.Prim)
		switch c.Loc {
		case "path":
			switch c.Style {
			case "simple":
				if v == "" {
					return w, false // n/a: an empty path segment
				}
				return RefWire{Text: v}, true
			case "label":
				return RefWire{Text: "." + v}, true
			case "matrix":
				return RefWire{Text: matrixPair(name, v)}, true
			}
		case "query":
			if c.Style == "form" {
				return RefWire{Query: url.Values{name: {v}}}, true
			}
		case "header":
			if v == "" {
				return w, false // n/a in the table
			}
			return RefWire{Text: v}, true
		case "cookie":
			return RefWire{Text: v}, true
		}
	case shArray:
		if len(c.Items) == 0 {
			return w, false
		}
		items := make([]string, len(c.Items))
		for i, it := range c.Items {
			items[i] = string(it)
		}
		comma := strings.Join(items, ",")
		switch c.Loc {
		case "path":
			switch c.Style {
			case "simple":
				if comma == "" {
					return w, false // [""]: an empty path segment
				}
				return RefWire{Text: comma}, true
			case "label":
				if c.Explode {
					return RefWire{Text: "." + strings.Join(items, ".")}, true
				}
				return RefWire{Text: "." + comma}, true
			case "matrix":
				if c.Explode {
					var b strings.Builder
					for _, it := range items {
						b.WriteString(matrixPair(name, it))
					}
					return RefWire{Text: b.String()}, true
				}
				return RefWire{Text: ";" + name + "=" + comma}, true
			}
		case "query":
			switch c.Style {
			case "form", "spaceDelimited", "pipeDelimited":
				if c.Explode {
					return RefWire{Query: url.Values{name: items}}, true
				}
				sep := map[string]string{"form": ",", "spaceDelimited": " ", "pipeDelimited": "|"}[c.Style]
				return RefWire{Query: url.Values{name: {strings.Join(items, sep)}}}, true
			}
		case "header":
			if comma == "" {
				return w, false
			}
			return RefWire{Text: comma}, true
		case "cookie":
			if !c.Explode {
				return RefWire{Text: comma}, true
			}
		}
	case shObject, shMap:
		fs := c.setFields()
		if len(fs) == 0 {
			return w, false
		}
		flat := make([]string, 0, 2*len(fs))
		for _, f := range fs {
			flat = append(flat, string(f.Name), string(f.Val))
		}
		comma := strings.Join(flat, ",")
		pairs := func(kv, sep string) string {
			var parts []string
			for _, f := range fs {
				parts = append(parts, string(f.Name)+kv+string(f.Val))
			}
			return strings.Join(parts, sep)
		}
		switch c.Loc {
		case "path":
			switch c.Style {
			case "simple":
				if c.Explode {
					return RefWire{Text: pairs("=", ",")}, true
				}
				return RefWire{Text: comma}, true
			case "label":
				if c.Explode {
					return RefWire{Text: "." + pairs("=", ".")}, true
				}
				return RefWire{Text: "." + comma}, true
			case "matrix":
				if c.Explode {
					var b strings.Builder
					for _, f := range fs {
						b.WriteString(matrixPair(string(f.Name), string(f.Val)))
					}
					return RefWire{Text: b.String()}, true
				}
				return RefWire{Text: ";" + name + "=" + comma}, true
			}
		case "query":
			switch c.Style {
			case "form":
				if c.Explode {
					q := url.Values{}
					for _, f := range fs {
						q.Add(string(f.Name), string(f.Val))
					}
					return RefWire{Query: q}, true
				}
				return RefWire{Query: url.Values{name: {comma}}}, true
			case "deepObject":
				if c.Explode {
					q := url.Values{}
					for _, f := range fs {
						q.Add(name+"["+string(f.Name)+"]", string(f.Val))
					}
					return RefWire{Query: q}, true
				}
			}
		case "header":
			if c.Explode {
				return RefWire{Text: pairs("=", ",")}, true
			}
			return RefWire{Text: comma}, true
		case "cookie":
			if !c.Explode {
				return RefWire{Text: comma}, true
			}
		}
	}
	return w, false
}

// ---- active delimiters, derived from the same table -----------------------------------

type valueClass int

const (
	classClean      valueClass = iota // no piece contains a delimiter of its serialization
	classMustRefuse                   // a piece contains the delimiter that ends it: ambiguous for every reader
	classTolerated                    // a piece contains a delimiter that a left-to-right reader does not stop at
)

func (v valueClass) String() string {
	return [...]string{"clean", "must-refuse", "tolerated"}[v]
}

// delimiters of one serialization. carrierEscaped: the pieces travel in
// separate carrier units that the carrier itself percent-encodes (query
// name/value pairs), so nothing inside a piece is active.
type delimSet struct {
	item           string // between array items
	kv, field      string // between name and value / between fields
	carrierEscaped bool
}

func delimitersOf(c Combo) delimSet {
	isArr := c.Shape == shArray
	switch c.Loc {
	case "path":
		switch c.Style {
		case "simple":
			if isArr || !c.Explode {
				return delimSet{item: ",", kv: ",", field: ","}
			}
			return delimSet{kv: "=", field: ","}
		case "label":
			if !c.Explode {
				return delimSet{item: ",", kv: ",", field: ","}
			}
			return delimSet{item: ".", kv: "=", field: "."}
		case "matrix":
			if !c.Explode {
				return delimSet{item: ",", kv: ",", field: ","}
			}
			return delimSet{item: ";", kv: "=", field: ";"}
		}
	case "query":
		if c.Explode {
			return delimSet{carrierEscaped: true}
		}
		switch c.Style {
		case "form":
			return delimSet{item: ",", kv: ",", field: ","}
		case "spaceDelimited":
			return delimSet{item: " "}
		case "pipeDelimited":
			return delimSet{item: "|"}
		}
	case "header":
		if isArr || !c.Explode {
			return delimSet{item: ",", kv: ",", field: ","}
		}
		return delimSet{kv: "=", field: ","}
	case "cookie":
		return delimSet{item: ",", kv: ",", field: ","}
	}
	return delimSet{carrierEscaped: true}
}

// classify decides, from the table only, whether the value is unambiguous.
//
//	array item ∋ item separator                      → must refuse
//	object name ∋ kv separator, value ∋ field separator → must refuse
//	(non-exploded objects: kv = field = ",", so "," anywhere)
//	object name ∋ field separator, value ∋ kv separator (exploded, kv ≠ field)
//	    → tolerated: a reader that scans name-up-to-kv, value-up-to-field is not
//	      confused, a reader that splits on the field separator first is; the
//	      encoder may refuse or send, but what it sends must round-trip.
func classify(c Case) valueClass {
	d := delimitersOf(c.Combo)
	if d.carrierEscaped || c.Absent {
		return classClean
	}
	cls := classClean
	switch c.Shape {
	case shArray:
		for _, it := range c.Items {
			if d.item != "" && strings.Contains(string(it), d.item) {
				return classMustRefuse
			}
		}
	case shObject, shMap:
		for _, f := range c.setFields() {
			n, v := string(f.Name), string(f.Val)
			if strings.Contains(n, d.kv) || strings.Contains(v, d.field) {
				return classMustRefuse
			}
			if strings.Contains(n, d.field) || strings.Contains(v, d.kv) {
				cls = classTolerated
			}
		}
	}
	return cls
}

// ---- carrier legality -------------------------------------------------------------------

func isUnreserved(c byte) bool {
	return c >= 'a' && c <= 'z' || c >= 'A' && c <= 'Z' || c >= '0' && c <= '9' ||
		c == '-' || c == '.' || c == '_' || c == '~'
}

func isHexDigit(c byte) bool {
	return c >= '0' && c <= '9' || c >= 'a' && c <= 'f' || c >= 'A' && c <= 'F'
}

// illegalPchar returns the first byte of s that may not appear in an RFC 3986
// path segment (pchar = unreserved / pct-encoded / sub-delims / ":" / "@");
// extra lists further bytes the carrier allows ("/" and "?" in a query).
func illegalPchar(s, extra string) (int, bool) {
	for i := 0; i < len(s); i++ {
		c := s[i]
		switch {
		case isUnreserved(c), strings.IndexByte("!$&'()*+,;=:@", c) >= 0, strings.IndexByte(extra, c) >= 0:
		case c == '%':
			if i+2 >= len(s) || !isHexDigit(s[i+1]) || !isHexDigit(s[i+2]) {
				return i, true
			}
			i += 2
		default:
			return i, true
		}
	}
	return 0, false
}

// RFC 6265 §4.1.1 cookie-octet.
func isCookieOctet(c byte) bool {
	return c == 0x21 || c >= 0x23 && c <= 0x2B || c >= 0x2D && c <= 0x3A || c >= 0x3C && c <= 0x5B || c >= 0x5D && c <= 0x7E
}

// refUnescapeCookie undoes ogen's documented cookie escaping: %XX → byte.
func refUnescapeCookie(s string) (string, bool) {
	var b strings.Builder
	for i := 0; i < len(s); i++ {
		if s[i] != '%' {
			b.WriteByte(s[i])
			continue
		}
		if i+2 >= len(s) || !isHexDigit(s[i+1]) || !isHexDigit(s[i+2]) {
			return "", false
		}
		b.WriteByte(unhexByte(s[i+1])<<4 | unhexByte(s[i+2]))
		i += 2
	}
	return b.String(), true
}

func unhexByte(c byte) byte {
	switch {
	case c >= '0' && c <= '9':
		return c - '0'
	case c >= 'a' && c <= 'f':
		return c - 'a' + 10
	default:
		return c - 'A' + 10
	}
}

// headerUnrepresentable: bytes RFC 9110 field-content cannot carry (CTLs other
// than HTAB, DEL) — OpenAPI defines no escaping for header values.
func headerUnrepresentable(s string) bool {
	for i := 0; i < len(s); i++ {
		if c := s[i]; c < 0x20 && c != '\t' || c == 0x7f {
			return true
		}
	}
	return false
}

func trimOWS(s string) string { return textproto.TrimString(s) }

func valuesEqual(a, b url.Values) bool {
	if len(a) != len(b) {
		return false
	}
	for k, av := range a {
		bv, ok := b[k]
		if !ok || len(av) != len(bv) {
			return false
		}
		for i := range av {
			if av[i] != bv[i] {
				return false
			}
		}
	}
	return true
}

func sortedKeys(m map[string]string) []string {
	ks := make([]string, 0, len(m))
	for k := range m {
		ks = append(ks, k)
	}
	sort.Strings(ks)
	return ks
}

// cookieHeaderValue extracts the cookie-value the client put on the wire for
// the (single) cookie called name. ok=false: the Cookie header is not exactly
// one `name=value` pair.
func cookieHeaderValue(h http.Header, name string) (string, bool) {
	vs := h["Cookie"]
	if len(vs) != 1 {
		return "", false
	}
	rest, ok := strings.CutPrefix(vs[0], name+"=")
	return rest, ok
}
