package c06

import (
	"encoding/json"
	"fmt"
	"go/format"
	"runtime/debug"
	"sort"
	"strings"
	"sync"

	"github.com/ogen-go/ogen"
	"github.com/ogen-go/ogen/gen"
	"github.com/ogen-go/ogen/gen/ir"
)

// ---- the configuration space -------------------------------------------------

var (
	allLocations = []string{"path", "query", "header", "cookie"}
	// every style name of OAS 3.0.3 §4.7.12.1 (the cross product with every
	// location is fed to the parser; most pairs are rejected there)
	allStyles = []string{"simple", "label", "matrix", "form", "spaceDelimited", "pipeDelimited", "deepObject"}
)

// Shapes. The first four are the ones the property quantifies values over
// (primitive, array, flat object with declared fields, flat object with free
// keys); the remaining ones are nested shapes that OpenAPI does not define a
// serialisation for: the parser or generator has to reject them, because the
// runtime codecs panic on them.
const (
	shPrim        = "prim"        // string
	shArray       = "array"       // array<string>
	shObject      = "object"      // object{a:string (required), b:string}
	shMap         = "map"         // map<string,string>
	shMapOfArray  = "mapOfArray"  // map<string,[]string>
	shMapOfObject = "mapOfObject" // map<string,object{a:string}>
	shObjWithArr  = "objWithArr"  // object{a: array<string>}
	shObjWithMap  = "objWithMap"  // object{a: map<string,string>}
	shObjWithObj  = "objWithObj"  // object{a: object{b:string}}
	shArrOfArr    = "arrOfArr"    // array<array<string>>
	shArrOfObj    = "arrOfObj"    // array<object{a:string}>
)

var allShapes = []string{shPrim, shArray, shObject, shMap, shMapOfArray, shMapOfObject, shObjWithArr, shObjWithMap, shObjWithObj, shArrOfArr, shArrOfObj}

var shapeSchema = map[string]string{
	shPrim:        `{"type":"string"}`,
	shArray:       `{"type":"array","items":{"type":"string"}}`,
	shObject:      `{"type":"object","properties":{"a":{"type":"string"},"b":{"type":"string"}},"required":["a"]}`,
	shMap:         `{"type":"object","additionalProperties":{"type":"string"}}`,
	shMapOfArray:  `{"type":"object","additionalProperties":{"type":"array","items":{"type":"string"}}}`,
	shMapOfObject: `{"type":"object","additionalProperties":{"type":"object","properties":{"a":{"type":"string"}}}}`,
	shObjWithArr:  `{"type":"object","properties":{"a":{"type":"array","items":{"type":"string"}}}}`,
	shObjWithMap:  `{"type":"object","properties":{"a":{"type":"object","additionalProperties":{"type":"string"}}}}`,
	shObjWithObj:  `{"type":"object","properties":{"a":{"type":"object","properties":{"b":{"type":"string"}}}}}`,
	shArrOfArr:    `{"type":"array","items":{"type":"array","items":{"type":"string"}}}`,
	shArrOfObj:    `{"type":"array","items":{"type":"object","properties":{"a":{"type":"string"}}}}`,
}

// Combo is one point of the configuration space.
type Combo struct {
	Loc     string `json:"loc"`
	Style   string `json:"style"`
	Explode bool   `json:"explode"`
	Shape   string `json:"shape"`
}

func (c Combo) String() string {
	return fmt.Sprintf("%s/%s/explode=%v/%s", c.Loc, c.Style, c.Explode, c.Shape)
}

func allCombos() []Combo {
	var out []Combo
	for _, l := range allLocations {
		for _, s := range allStyles {
			for _, e := range []bool{false, true} {
				for _, sh := range allShapes {
					out = append(out, Combo{l, s, e, sh})
				}
			}
		}
	}
	return out
}

// oneParamSpec builds a one-operation, one-parameter document.
func oneParamSpec(c Combo, required bool) string {
	path := "/t"
	if c.Loc == "path" {
		path = "/t/{p}"
	}
	name := "p"
	if c.Loc == "header" {
		name = "X-P"
	}
	return fmt.Sprintf(`{"openapi":"3.0.3","info":{"title":"t","version":"1"},"paths":{%q:{"get":{"operationId":"op",`+
		`"parameters":[{"name":%q,"in":%q,"style":%q,"explode":%v,"required":%v,"schema":%s}],`+
		`"responses":{"200":{"description":"ok"}}}}}}`,
		path, name, c.Loc, c.Style, c.Explode, required, shapeSchema[c.Shape])
}

// memFS keeps the generated sources (and checks that they are Go).
type memFS struct {
	mu    sync.Mutex // WriteSource writes files concurrently
	files map[string][]byte
	err   error
}

func (m *memFS) WriteFile(name string, content []byte) error {
	_, ferr := format.Source(content)
	m.mu.Lock()
	defer m.mu.Unlock()
	if ferr != nil && m.err == nil {
		m.err = fmt.Errorf("%s: %w", name, ferr)
	}
	m.files[name] = content
	return nil
}

// Admission is what the real parser and generator said about one combination.
type Admission struct {
	Admitted bool   `json:"admitted"`
	Stage    string `json:"stage"`            // "admitted", "parse", "generate", "write", "skipped", "panic"
	Reason   string `json:"reason,omitempty"` // last line of the error
	IRKind   string `json:"ir,omitempty"`     // how the generator typed the parameter
	Fields   string `json:"fields,omitempty"` // `Fields:` literal the decoder template got (query objects)
}

func irShape(t *ir.Type) string {
	if t == nil {
		return "nil"
	}
	switch t.Kind {
	case ir.KindPrimitive:
		return t.Primitive.String()
	case ir.KindArray:
		return "[]" + irShape(t.Item)
	case ir.KindGeneric:
		return "Opt<" + irShape(t.GenericOf) + ">"
	case ir.KindPointer:
		return "*" + irShape(t.PointerTo)
	case ir.KindAlias:
		return "alias<" + irShape(t.AliasTo) + ">"
	case ir.KindMap:
		return "map<" + irShape(t.Item) + ">"
	case ir.KindStruct:
		var fs []string
		for _, f := range t.Fields {
			n := f.Name
			if f.Spec != nil {
				n = f.Spec.Name
			}
			fs = append(fs, n+":"+irShape(f.Type))
		}
		return "struct{" + strings.Join(fs, ",") + "}"
	default:
		return string(t.Kind)
	}
}

func lastLine(err error) string {
	s := err.Error()
	// keep the innermost cause: ogen wraps with "a: b: c"
	if i := strings.LastIndex(s, ": "); i >= 0 && i+2 < len(s) {
		head := s
		if len(head) > 60 {
			head = head[:60]
		}
		_ = head
		return strings.TrimSpace(s[i+2:])
	}
	return s
}

// admit runs ogen.Parse → gen.NewGenerator → WriteSource on the one-parameter
// document: the combination is admitted iff all three succeed and the
// operation really carries the parameter.
func admit(c Combo, required bool) (a Admission) {
	defer func() {
		if r := recover(); r != nil {
			st := string(debug.Stack())
			if len(st) > 600 {
				st = st[:600]
			}
			a = Admission{Stage: "panic", Reason: fmt.Sprintf("%v\n%s", r, st)}
		}
	}()
	doc := oneParamSpec(c, required)
	spec, err := ogen.Parse([]byte(doc))
	if err != nil {
		return Admission{Stage: "parse", Reason: lastLine(err)}
	}
	g, err := gen.NewGenerator(spec, gen.Options{}) // no remote access, nothing ignored
	if err != nil {
		stage := "generate"
		// parser errors surface through NewGenerator as well
		if strings.Contains(err.Error(), "parse") || strings.Contains(err.Error(), "invalid schema.type:style:explode") ||
			strings.Contains(err.Error(), "invalid style explode combination") {
			stage = "parse"
		}
		return Admission{Stage: stage, Reason: lastLine(err)}
	}
	fs := &memFS{files: map[string][]byte{}}
	if err := g.WriteSource(fs, "api"); err != nil {
		return Admission{Stage: "write", Reason: lastLine(err)}
	}
	if fs.err != nil {
		return Admission{Stage: "write", Reason: fs.err.Error()}
	}
	ops := g.Operations()
	if len(ops) != 1 || len(ops[0].Params) != 1 {
		return Admission{Stage: "skipped", Reason: fmt.Sprintf("operations=%d", len(ops))}
	}
	p := ops[0].Params[0]
	a = Admission{Admitted: true, Stage: "admitted", IRKind: irShape(p.Type)}
	if src := string(fs.files["oas_parameters_gen.go"]); c.Loc == "query" {
		if i := strings.Index(src, "Fields:"); i >= 0 {
			j := strings.IndexByte(src[i:], '\n')
			a.Fields = strings.Join(strings.Fields(strings.TrimSuffix(strings.TrimSpace(src[i:i+j]), ",")), " ")
		}
	}
	return a
}

type admissionTable struct {
	Rows map[string]Admission // key: Combo.String() + "/required=.."
}

func admKey(c Combo, required bool) string {
	return fmt.Sprintf("%s/required=%v", c, required)
}

var (
	admOnce  sync.Once
	admTable map[Combo]Admission // required=true row (path) / merged
	admAll   map[string]Admission
)

// admissionOf computes (once per process) the admission table of the whole
// cross product. Non-path parameters are tried both required and optional.
func admissionOf() (map[Combo]Admission, map[string]Admission) {
	admOnce.Do(func() {
		combos := allCombos()
		type res struct {
			c   Combo
			req bool
			a   Admission
		}
		jobs := make(chan res, len(combos)*2)
		outs := make(chan res, len(combos)*2)
		n := 0
		for _, c := range combos {
			jobs <- res{c: c, req: true}
			n++
			if c.Loc != "path" {
				jobs <- res{c: c, req: false}
				n++
			}
		}
		close(jobs)
		var wg sync.WaitGroup
		for w := 0; w < 4; w++ {
			wg.Add(1)
			go func() {
				defer wg.Done()
				for j := range jobs {
					j.a = admit(j.c, j.req)
					outs <- j
				}
			}()
		}
		wg.Wait()
		close(outs)
		admTable = map[Combo]Admission{}
		admAll = map[string]Admission{}
		for r := range outs {
			admAll[admKey(r.c, r.req)] = r.a
			if r.req {
				admTable[r.c] = r.a
			}
		}
	})
	return admTable, admAll
}

// admittedCombos lists, sorted, the admitted combinations of the given shapes.
func admittedCombos(shapes ...string) []Combo {
	tab, _ := admissionOf()
	want := map[string]bool{}
	for _, s := range shapes {
		want[s] = true
	}
	var out []Combo
	for c, a := range tab {
		if a.Admitted && want[c.Shape] {
			out = append(out, c)
		}
	}
	sort.Slice(out, func(i, j int) bool { return out[i].String() < out[j].String() })
	return out
}

func mustJSON(v any) string {
	b, _ := json.Marshal(v)
	return string(b)
}

// ---- declared property names ------------------------------------------------------
//
// The names of an object parameter's properties are part of the document, so
// whether a set of names can occur in generated code is again decided by the
// real generator (e.g. it cannot derive a Go field name from ","; a name with
// a double quote breaks the Fields literal of query parameters). Map keys are
// run-time values and need no admission.

var (
	nameMu    sync.Mutex
	nameCache = map[string]bool{}
)

func fieldNamesAdmitted(loc string, names []S) bool {
	class := "header"
	if loc == "query" {
		class = "query" // the query decoder template additionally prints the names into a Fields literal
	}
	// admission of a set of names does not depend on their order
	names = append([]S(nil), names...)
	sort.Slice(names, func(i, j int) bool { return names[i] < names[j] })
	var kb strings.Builder
	kb.WriteString(class)
	for _, n := range names {
		kb.WriteByte(0)
		kb.WriteString(string(n))
	}
	key := kb.String()
	nameMu.Lock()
	v, ok := nameCache[key]
	nameMu.Unlock()
	if ok {
		return v
	}
	v = admitFieldNames(class, names)
	nameMu.Lock()
	nameCache[key] = v
	nameMu.Unlock()
	return v
}

func admitFieldNames(class string, names []S) (ok bool) {
	defer func() {
		if r := recover(); r != nil {
			ok = false
		}
	}()
	var props []string
	for _, n := range names {
		props = append(props, fmt.Sprintf(`%s:{"type":"string"}`, mustJSON(string(n))))
	}
	in, style, name := "header", "simple", "X-P"
	if class == "query" {
		in, style, name = "query", "form", "p"
	}
	doc := fmt.Sprintf(`{"openapi":"3.0.3","info":{"title":"t","version":"1"},"paths":{"/t":{"get":{"operationId":"op",`+
		`"parameters":[{"name":%q,"in":%q,"style":%q,"explode":true,"schema":{"type":"object","properties":{%s}}}],`+
		`"responses":{"200":{"description":"ok"}}}}}}`, name, in, style, strings.Join(props, ","))
	spec, err := ogen.Parse([]byte(doc))
	if err != nil {
		return false
	}
	g, err := gen.NewGenerator(spec, gen.Options{})
	if err != nil {
		return false
	}
	if len(names) == 1 {
		// templates: only a single name can break them (quoting); sets of names
		// can only clash as Go identifiers, which NewGenerator reports
		fs := &memFS{files: map[string][]byte{}}
		if err := g.WriteSource(fs, "api"); err != nil || fs.err != nil {
			return false
		}
	} else {
		for _, n := range names {
			if !fieldNamesAdmitted(class, []S{n}) {
				return false
			}
		}
	}
	ops := g.Operations()
	if len(ops) != 1 || len(ops[0].Params) != 1 {
		return false
	}
	t := ops[0].Params[0].Type
	if t.IsGeneric() {
		t = t.GenericOf
	}
	return t.IsStruct() && len(t.Fields) == len(names)
}
