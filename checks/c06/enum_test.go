package c06

// alphabet: every delimiter of the style table, the escape byte, reserved
// bytes of the carriers, a blank, a multi-byte rune, quote and backslash.
var alphabet = []string{"a", ",", ".", ";", "=", "|", "&", "/", "%", "+", " ", "é", `"`, `\`}

// stringsUpTo lists every string of at most n alphabet symbols (shortest first).
func stringsUpTo(n int) []S { return stringsOver(alphabet, n) }

func stringsOver(alphabet []string, n int) []S {
	out := []S{""}
	prev := []S{""}
	for l := 1; l <= n; l++ {
		var next []S
		for _, p := range prev {
			for _, a := range alphabet {
				next = append(next, p+S(a))
			}
		}
		out = append(out, next...)
		prev = next
	}
	return out
}

func defaultName(loc string) string {
	if loc == "header" {
		return "X-P"
	}
	return "p"
}

// enumBounds bounds the exhaustive enumeration of one combination.
type enumBounds struct {
	PrimLen   int // primitives: strings up to this length
	ItemLen   int // arrays: items up to this length ...
	MaxItems  int // ... and up to this many items
	FieldLen  int // objects and maps: names and values up to this length ...
	MaxFields int // ... and up to this many fields
	PropLen   int // objects: declared property names up to this length (each set costs a generator run)
	Symbols   []string // objects and maps: symbols to use instead of the whole alphabet
}

// enumerate visits every value of the combination within the bounds.
func enumerate(cb Combo, b enumBounds, visit func(Case)) {
	base := Case{Combo: cb, Name: defaultName(cb.Loc), Required: true}
	switch cb.Shape {
	case shPrim:
		for _, s := range stringsUpTo(b.PrimLen) {
			c := base
			c.Prim = s
			visit(c)
		}
	case shArray:
		strs := stringsUpTo(b.ItemLen)
		var rec func(items []S)
		rec = func(items []S) {
			c := base
			c.Items = append([]S(nil), items...)
			visit(c)
			if len(items) == b.MaxItems {
				return
			}
			for _, s := range strs {
				rec(append(items, s))
			}
		}
		rec(nil)
	case shObject, shMap:
		strs := stringsUpTo(b.FieldLen)
		if b.Symbols != nil {
			strs = stringsOver(b.Symbols, b.FieldLen)
		}
		var rec func(fs []Field)
		rec = func(fs []Field) {
			// an object type has at least one declared property
			if cb.Shape == shMap || len(fs) > 0 {
				c := base
				c.Fields = append([]Field(nil), fs...)
				visit(c)
			}
			if len(fs) == b.MaxFields {
				return
			}
			for _, n := range strs {
				if cb.Shape == shObject && symbols(n) > b.PropLen {
					continue
				}
				dup := false
				for _, f := range fs {
					if f.Name == n {
						dup = true
						break
					}
				}
				if dup {
					continue
				}
				if cb.Shape == shObject {
					// the set of declared names must be one the generator accepts
					names := make([]S, 0, len(fs)+1)
					for _, f := range fs {
						names = append(names, f.Name)
					}
					if !fieldNamesAdmitted(cb.Loc, append(names, n)) {
						continue
					}
					// declared optional property left unset by the caller
					rec(append(fs, Field{Name: n, Unset: true}))
				}
				for _, v := range strs {
					// object: every other declared property is required
					rec(append(fs, Field{Name: n, Val: v, Required: cb.Shape == shObject && len(fs)%2 == 0}))
				}
			}
		}
		rec(nil)
	}
}
